"""C14, C->S binding: real nutils Systems (random small linear / polynomial / log /
sqrt / exp residuals, boolean and NaN-float constraints, both matrix backends,
all method classes) are solved by the real System.solve with a recording wrapper
around ``method=``; spec/TraceSolver.tla decides whether the recorded execution
is a behaviour of the design and whether the returned answer is Certified.

The residual norms in the events are classified against the requested
tolerance; the "true" class comes from a dense numpy re-evaluation of the
residual that shares no code with nutils.
"""

import json
import os
import warnings

import numpy

from .. import tlc
from .c14_proto import classify_exc, _NULL, _CountIter, tlc_run

NAN, INF, NOMAX = 1000, 999, 99


# ---------------------------------------------------------------------------
# problem family: r(u) = A u + c*u^3 + d*f(u) - b   (f = log, sqrt or exp)

class Problem:
    def __init__(self, n, A, b, c, d, f):
        self.n, self.A, self.b, self.c, self.d, self.f = n, A, b, c, d, f

    @property
    def linear(self):
        return not self.c.any() and not self.d.any()

    def residual(self, u):
        'independent dense evaluation'
        with numpy.errstate(all='ignore'):
            r = self.A @ u - self.b
            if self.c.any():      # nutils drops a product with an all-zero constant; otherwise IEEE elementwise
                r = r + self.c * u**3
            if self.d.any():
                fu = dict(log=numpy.log, sqrt=numpy.sqrt, exp=numpy.exp)[self.f](u)
                r = r + self.d * fu
        return r

    def nutils_residual(self):
        from nutils import function
        u = function.Argument('u', (self.n,))
        r = (self.A @ u) + self.c * u**3 - self.b
        if self.d.any():
            fu = dict(log=numpy.log, sqrt=numpy.sqrt, exp=numpy.exp)[self.f](u)
            r = r + self.d * fu
        return u, r

    def nutils_energy(self):
        from nutils import function
        u = function.Argument('u', (self.n,))
        return u, .5 * (u @ (self.A @ u)) + (self.c * u**4).sum() / 4 - self.b @ u

    def describe(self):
        return dict(n=self.n, A=self.A.tolist(), b=self.b.tolist(), c=self.c.tolist(), d=self.d.tolist(), f=self.f)


def random_problem(rng, symmetric=False, linear=None):
    n = rng.choice([1, 2, 2, 3])
    A = numpy.array([[float(rng.choice([-1, 0, 0, 1, 2])) for _ in range(n)] for _ in range(n)])
    shape = rng.choice(['dominant', 'dominant', 'random', 'singular', 'illcond'])
    if symmetric:
        A = A + A.T
    if shape == 'dominant':
        A += numpy.eye(n) * (abs(A).sum() + 1)
    elif shape == 'singular' and n > 1:
        A[-1] = A[0]
        if symmetric:
            A[:, -1] = A[:, 0]
            A[-1, -1] = A[0, 0]
    elif shape == 'illcond' and n > 1:
        A[-1] = A[0] * (1 + 1e-13)
        A[-1, -1] += 1e-13
        if symmetric:
            A = (A + A.T) / 2
    b = numpy.array([float(rng.choice([-2, -1, 0, 1, 3])) for _ in range(n)])
    if linear is None:
        linear = rng.random() < .3
    c = numpy.zeros(n)
    d = numpy.zeros(n)
    f = 'log'
    if not linear:
        c = numpy.array([float(rng.choice([0, .5, 1, -1])) for _ in range(n)])
        if not symmetric and rng.random() < .6:
            f = rng.choice(['log', 'sqrt', 'exp'])
            d = numpy.array([float(rng.choice([0, 1, -1, 2])) for _ in range(n)])
        if not c.any() and not d.any():
            c[0] = 1.
    return Problem(n, A, b, c, d, f)


# ---------------------------------------------------------------------------

def cls_of(v, tau):
    v = float(v)
    if v != v:
        return NAN
    if v == float('inf'):
        return INF
    return 1 if v <= tau else 2


class Tracer:
    def __init__(self, inner, prob, free, prescribed, tau, events):
        self.inner, self.prob, self.free, self.prescribed, self.tau, self.events = inner, prob, free, prescribed, tau, events
        self.count = dict(n=0)
        self.last = None

    def __str__(self):
        return str(self.inner)

    def observe(self, ev, arguments, resnorm):
        u = numpy.asarray(arguments['u'], dtype=float)
        true = float(numpy.linalg.norm(self.prob.residual(u)[self.free]))
        rep = float(resnorm)
        r = cls_of(rep, self.tau)
        scale = 1 + abs(self.prob.A).sum() * (1 + abs(u[numpy.isfinite(u)]).sum()) + abs(self.prob.b).sum()
        if abs(u[numpy.isfinite(u)]).max(initial=0.) > 1e60:
            t = r      # overflow range: evaluation order decides between inf and nan; no independent verdict
        elif rep == rep and true == true and abs(rep - true) <= 1e-6 * max(abs(rep), abs(true)) + 1e-12 * scale:
            t = r      # equal up to rounding: same class even at the class boundary
        else:
            t = cls_of(true, self.tau)
        consok = bool((u[~self.free] == self.prescribed[~self.free]).all())
        self.last = u.copy()
        self.events.append(dict(ev=ev, r=r, t=t, c=consok, rep=repr(rep), true=repr(true)))

    def __call__(self, system, *, arguments, constrain):
        m = self.inner(system, arguments=arguments, constrain=constrain)
        if isinstance(m, tuple):
            self.observe('tuple', *m)
            return m
        return self._gen(_CountIter(m, self.count))

    def _gen(self, it):
        # generator: runs only when System.solve calls next()
        while True:
            try:
                arguments, resnorm = next(it)
            except StopIteration:
                return
            self.observe('yield', arguments, resnorm)
            yield arguments, resnorm


METHODS = ['newton', 'newton', 'reuse', 'linesearch', 'linesearch-median', 'minimize', 'pseudotime', 'direct', 'direct', 'arnoldi']


def draw_case(rng, backend_name):
    """draw the description of one real solve"""
    mname = rng.choice(METHODS)
    prob = random_problem(rng, symmetric=(mname == 'minimize'), linear=True if mname in ('direct', 'arnoldi') else None)
    n = prob.n
    conskind = rng.choice(['none', 'bool', 'nanfloat', 'nanfloat'])
    free = numpy.ones(n, dtype=bool)
    if conskind != 'none' and n > 1:
        for i in range(n):
            if rng.random() < .4:
                free[i] = False
        if not free.any():
            free[rng.randrange(n)] = True
    guessed = rng.random() < .7 or conskind == 'bool'
    guess = numpy.array([float(rng.choice([.5, 1., 1., 2., -1., 3.])) for _ in range(n)])
    consval = numpy.array([float(rng.choice([0., .25, 1., -1.5])) for _ in range(n)])
    tolpos = not (mname == 'direct' and rng.random() < .5)
    tolreal = rng.choice([1e-6, 1e-9, 1e-10]) if tolpos else 0.
    if mname != 'direct' and rng.random() < .04:
        tolreal = 0.   # ValueError branch
        tolpos = False
    miniter = rng.choice([0, 0, 0, 1, 2]) if mname != 'arnoldi' else rng.choice([0, 0, 1])
    maxiter = rng.choice([None, None, 0, 1, 3, 8, 20])
    if maxiter is None and mname not in ('direct', 'arnoldi'):
        maxiter = 40    # always bounded: a NaN-safe guard would otherwise iterate forever
    lmode = rng.choice(['default', 'default', 'abs', 'none'])
    linsolver = rng.choice(['default', 'direct', 'arnoldi'] + (['gmres'] if backend_name == 'scipy' else []))
    api = 'System.solve'
    if mname in ('newton', 'linesearch', 'linesearch-median', 'minimize', 'pseudotime') and tolpos and (maxiter is None or miniter <= maxiter) and rng.random() < .35:
        api = 'legacy'      # solver.newton / minimize / pseudotime (..).solve(tol): _with_solve.solve_withinfo
    return dict(api=api, mname=mname, prob=prob, conskind=conskind, free=free, guessed=guessed, guess=guess, consval=consval, tolreal=tolreal, tolpos=tolpos,
                miniter=miniter, maxiter=maxiter, lmode=lmode, linsolver=linsolver, backend=backend_name, pseudo_dt=rng.choice([.1, 1., 100.]))


def special_case(backend, linsolver, lmode, tolpos, bad):
    """Direct method, builtin linear solver, right hand side with a nan / inf entry"""
    prob = Problem(2, numpy.array([[2., 1.], [1., 3.]]), numpy.array([float(bad), 1.]), numpy.zeros(2), numpy.zeros(2), 'log')
    return execute(dict(api='System.solve', mname='direct', prob=prob, conskind='none', free=numpy.ones(2, dtype=bool), guessed=False, guess=numpy.zeros(2), consval=numpy.zeros(2),
                        tolreal=1e-8 if tolpos else 0., tolpos=tolpos, miniter=0, maxiter=None, lmode=lmode, linsolver=linsolver, backend=backend, pseudo_dt=1.))


def special_linesearch(backend, api):
    """LinesearchNewton / NormBased at a point where the Jacobian is infinite: r(u) = -u^3 + sqrt(u) + 1 from u = 0"""
    prob = Problem(1, numpy.array([[0.]]), numpy.array([-1.]), numpy.array([-1.]), numpy.array([1.]), 'sqrt')
    return execute(dict(api=api, mname='linesearch', prob=prob, conskind='none', free=numpy.ones(1, dtype=bool), guessed=False, guess=numpy.zeros(1),
                        consval=numpy.zeros(1), tolreal=1e-9, tolpos=True, miniter=0, maxiter=20, lmode='default', linsolver='default', backend=backend, pseudo_dt=1.))


def run_case(rng, backend_name):
    return execute(draw_case(rng, backend_name))


def execute(case):
    """one real solve -> trace dict (conf, events, info)"""
    import treelog
    from nutils import solver, matrix
    mname, prob, conskind, guessed, guess, consval = case['mname'], case['prob'], case['conskind'], case['guessed'], case['guess'], case['consval']
    free = case['free'].copy()
    tolreal, tolpos, miniter, maxiter, lmode, linsolver, backend_name = case['tolreal'], case['tolpos'], case['miniter'], case['maxiter'], case['lmode'], case['linsolver'], case['backend']
    n = prob.n
    arguments, constrain = {}, {}
    if guessed:
        arguments['u'] = guess.copy()
    if conskind == 'bool':
        constrain['u'] = ~free
        prescribed = guess.copy()
    elif conskind == 'nanfloat':
        constrain['u'] = numpy.where(free, numpy.nan, consval)
        prescribed = consval.copy()
    else:
        free[:] = True
        prescribed = consval
    tau = tolreal if tolpos else 1e-8
    linargs = {}
    if lmode == 'abs':
        linargs.update(atol=tau, rtol=0.)
    elif lmode == 'none':
        linargs.update(atol=0., rtol=0.)
    newtonlike = mname in ('newton', 'reuse', 'linesearch', 'linesearch-median', 'minimize', 'pseudotime')
    if linsolver != 'default':
        linargs['solver'] = linsolver
        if linsolver in ('gmres', 'bicgstab', 'cg') and lmode == 'none':
            lmode = 'abs'
            linargs.update(atol=tau, rtol=0.)
    mlmode = lmode if lmode != 'default' else ('rel' if newtonlike else 'none')
    with matrix.backend(backend_name), warnings.catch_warnings(), numpy.errstate(all='ignore'), treelog.set(_NULL):
        warnings.simplefilter('ignore')
        if mname == 'minimize':
            u, energy = prob.nutils_energy()
            system = solver.System(energy, trial='u')
        else:
            u, res = prob.nutils_residual()
            system = solver.System([res], trial='u')
        if mname == 'newton':
            method, mproto = solver.Newton(**linargs), 'newton'
        elif mname == 'reuse':
            method, mproto = solver.ReuseNewton(**linargs), 'reuse'
        elif mname == 'linesearch':
            method, mproto = solver.LinesearchNewton(**linargs), 'linesearch'
        elif mname == 'linesearch-median':
            method, mproto = solver.LinesearchNewton(strategy=solver.MedianBased(), **linargs), 'linesearch'
        elif mname == 'minimize':
            method, mproto = solver.Minimize(**linargs), 'linesearch'
        elif mname == 'pseudotime':
            method, mproto = solver.Pseudotime(inertia=[u.as_evaluable_array], timestep=case['pseudo_dt'], **linargs), 'newton'
        elif mname == 'direct':
            method, mproto = solver.Direct(**linargs), 'direct'
        else:
            method, mproto = solver.Arnoldi(**linargs), 'arnoldi'
        events = []
        tracer = Tracer(method, prob, free, prescribed, tau, events)
        if mproto == 'direct':
            # class of the initial residual (the right hand side of the linear solve), computed independently
            u0 = numpy.where(free, guess if guessed else 0., prescribed)
            if conskind == 'bool':
                u0 = guess.copy()
            events.append(dict(ev='rhs', r=cls_of(numpy.linalg.norm(prob.residual(u0)[free]), tau), t=0, c=True))
        ret = None
        try:
            if case['api'] == 'legacy':
                import dataclasses
                lin = {'lin' + k: v for k, v in linargs.items()}
                if mname == 'minimize':
                    w = solver.minimize(['u'], energy, constrain=constrain, arguments=arguments, **lin)
                elif mname == 'pseudotime':
                    w = solver.pseudotime(['u'], [res], [u], case['pseudo_dt'], constrain=constrain, arguments=arguments, **lin)
                else:
                    w = solver.newton(['u'], [res], constrain=constrain, arguments=arguments,
                                      linesearch=None if mname == 'newton' else solver.MedianBased() if mname == 'linesearch-median' else solver.NormBased(), **lin)
                if type(w.method) is not type(method):
                    raise RuntimeError('legacy wrapper built {} where {} was expected'.format(type(w.method).__name__, type(method).__name__))
                tracer.inner = w.method
                w = dataclasses.replace(w, method=tracer)
                ret, winfo = w.solve_withinfo(tol=tolreal, miniter=miniter, **({} if maxiter is None else dict(maxiter=maxiter)))
            else:
                ret = system.solve(arguments=arguments, constrain=constrain, tol=tolreal, miniter=miniter, maxiter=maxiter, method=tracer)
            outcome = 'return'
        except Exception as e:
            outcome = classify_exc(e)
            detail = repr(e)[:160]
    end = dict(ev='end', outcome=outcome, iiter=max(tracer.count['n'] - 1, 0), c=True, same=True)
    if ret is not None:
        ur = numpy.asarray(ret['u'], dtype=float)
        end['c'] = bool((ur[~free] == prescribed[~free]).all() and numpy.isfinite(ur).all())
        end['same'] = bool(tracer.last is not None and ur.tobytes() == tracer.last.tobytes())
        end['u'] = [repr(float(x)) for x in ur]
        end['true'] = repr(float(numpy.linalg.norm(prob.residual(ur)[free])))
    else:
        end['detail'] = detail
    events.append(end)
    conf = dict(m=mproto, tol=1 if tolpos else 0, miniter=miniter, maxiter=NOMAX if maxiter is None else maxiter, lmode=mlmode)
    info = dict(api=case['api'], method=mname, backend=backend_name, linsolver=linsolver, lmode=lmode, tol=tolreal, conskind=conskind,
                free=free.tolist(), guess=guess.tolist() if guessed else None, prescribed=prescribed.tolist(), problem=prob.describe())
    return dict(conf=conf, events=events, info=info)


def validate_run(traces, tag='c14-trace'):
    """run TraceSolver on a batch (thread-safe: does not touch the report) -> TLC result"""
    wd = os.path.join(tlc.WORK, 'c14')
    os.makedirs(wd, exist_ok=True)
    path = os.path.join(wd, tag + '.json')
    slim = [dict(conf=t['conf'], events=[{k: v for k, v in e.items() if k in ('ev', 'r', 't', 'c', 'outcome', 'iiter', 'same')} for e in t['events']]) for t in traces]
    with open(path, 'w') as f:
        json.dump(slim, f)
    return tlc_run('TraceSolver', 'TraceSolver.cfg', tag=tag, workers=1, env=dict(VF_TRACE=path), deadlock=False, timeout=1200)


def verdicts_of(rep, res, traces):
    rep.add_tlc(res)
    if res.violated:
        raise RuntimeError('TraceSolver: design invariant {} violated inside a matched trace:\n{}'.format(res.violated, '\n'.join(res.error_trace[-40:])))
    verdicts = {e['tid']: e for e in res.emitted}
    if len(verdicts) != len(traces):
        raise RuntimeError('TraceSolver reported {} verdicts for {} traces'.format(len(verdicts), len(traces)))
    return verdicts


def validate(rep, traces, tag='c14-trace'):
    return verdicts_of(rep, validate_run(traces, tag), traces)


def judge(rep, traces, verdicts, prefix='solve'):
    """map the model's verdicts to OK / finding / not-a-behaviour"""
    nok = 0
    for i, t in enumerate(traces, 1):
        v = verdicts[i]
        n = v['len']
        if v['r'] == n:
            nok += 1       # a behaviour of the design the property demands (Certified is its invariant)
            continue
        if v['a'] == n:
            if v['cert'] == 1:
                nok += 1
                continue
            rep.violation(v['why'], 'real execution returns an answer the model does not certify (guard {}): {} on {} backend'.format(
                v['why'], t['info']['method'], t['info']['backend']), t)
            continue
        m = max(v['a'], v['r'])
        nxt = t['events'][m] if m < n else {}
        what = nxt.get('ev')
        if what == 'end' and nxt.get('outcome') not in ('return', 'SolverError', 'MatrixError', 'ToleranceNotReached', 'ValueError', 'StopIteration'):
            # not an exception class of the design at all
            rep.violation('solve:{}:raises-{}'.format(t['conf']['m'], nxt.get('outcome')),
                          'System.solve(method={}) raised {}, which is neither a solver nor a matrix error: {}'.format(t['info']['method'], nxt.get('outcome'), nxt.get('detail')), t)
            continue
        if what == 'end':
            what = 'end:' + str(nxt.get('outcome'))
        elif what in ('yield', 'tuple'):
            what += ':dishonest-resnorm' if nxt.get('r') != nxt.get('t') else (':constraint-violated' if not nxt.get('c') else '')
        rep.violation('{}-trace:{}:{}'.format(prefix, t['conf']['m'], what),
                      'recorded execution of System.solve is not a behaviour of Solver.tla: matched {} of {} events, next {}'.format(m, n, nxt), t)
    return nok
