---------------------------- MODULE ExprBuilder ----------------------------
(***************************************************************************)
(* "All well-typed array-expression DAGs" as a state machine over the      *)
(* vocabulary of ArraySem.  One action per constructor family, enabled     *)
(* iff the constructor's typing rule (the __post_init__ assertions of      *)
(* src/nutils/evaluable.py) holds for the chosen operands.                 *)
(*                                                                         *)
(* State: nodes -- the program in post order.  A node carries, besides     *)
(* what ArraySem needs (op, d, p, sh, dt), two typing attributes:          *)
(*   ix : n > 0 when the node is integer valued with values certainly in   *)
(*        0..n-1 (usable as index/dofmap), else 0; on a complex node       *)
(*        ix = 1 marks "integer valued, zero imaginary part" (usable as    *)
(*        exponent of a complex Power, which the model defines only then)  *)
(*   lp : set of loop ids the node depends on (free loops)                 *)
(* Normal form: every new non-leaf node uses the last node as an operand   *)
(* (every DAG has such a construction order), sharing of earlier nodes is  *)
(* free.  A state is "complete" when the last node has no free loops and   *)
(* every other node is used.  TLC enumerates (exhaustive configs) or       *)
(* samples (-simulate) the complete states and emits them; the harness     *)
(* replays each into nutils' raw constructors.                             *)
(***************************************************************************)
EXTENDS ArraySem, Json

CONSTANTS Families,     \* sequence of vocabularies [ops, leaves, maxnodes, maxops, maxleaves]; one is chosen initially
          EmitMin       \* emit only programs with at least this many non-leaf nodes

VARIABLES nodes, fam

MaxNodes == Families[fam].maxnodes     \* bound on program length
MaxOps == Families[fam].maxops         \* bound on number of non-leaf nodes
MaxLeaves == Families[fam].maxleaves   \* bound on number of leaf nodes
Ops == Families[fam].ops               \* set of enabled constructor names
LeafSet == Families[fam].leaves        \* enabled subset of 1..Len(LeafPool)

Leaf(op, p, sh, dt, ix, lp) == [op |-> op, d |-> <<>>, p |-> p, sh |-> sh, dt |-> dt, ix |-> ix, lp |-> lp]
Node(op, d, p, sh, dt, ix, lp) == [op |-> op, d |-> d, p |-> p, sh |-> sh, dt |-> dt, ix |-> ix, lp |-> lp]

\* ---- leaves: arguments (id, shape, dtype), constants, ranges, loop indices
LeafPool == <<
  Leaf("Arg", <<1>>, <<2>>, "f", 0, {}),                                  \* 1
  Leaf("Arg", <<2>>, <<2, 2>>, "f", 0, {}),                               \* 2
  Leaf("Arg", <<3>>, <<>>, "f", 0, {}),                                   \* 3
  Leaf("Arg", <<4>>, <<3>>, "f", 0, {}),                                  \* 4
  Leaf("Arg", <<5>>, <<2>>, "i", 0, {}),                                  \* 5
  Leaf("Arg", <<6>>, <<2>>, "b", 0, {}),                                  \* 6
  Leaf("Const", <<1, 1, 2, 1>>, <<2>>, "f", 0, {}),                       \* 7  [1., 2.]
  Leaf("Const", <<2, 1>>, <<>>, "f", 0, {}),                              \* 8  2.
  Leaf("Const", <<1, 2>>, <<>>, "f", 0, {}),                              \* 9  .5
  Leaf("Const", <<4, 1>>, <<>>, "f", 0, {}),                              \* 10 4.
  Leaf("Const", <<2, 1, 2, 1>>, <<2>>, "f", 0, {}),                       \* 11 [2., 2.] (uniform)
  Leaf("Const", <<1, 1, 2, 1, 3, 1, 4, 1>>, <<2, 2>>, "f", 0, {}),        \* 12 [[1,2],[3,4]]
  Leaf("Const", <<1, 1, 0, 1>>, <<2>>, "i", 2, {}),                       \* 13 [1, 0]  (permutation)
  Leaf("Const", <<0, 1, 0, 1>>, <<2>>, "i", 1, {}),                       \* 14 [0, 0]  (repeated)
  Leaf("Const", <<0, 1, 0, 1, 2, 1>>, <<3>>, "i", 3, {}),                 \* 15 [0, 0, 2]
  Leaf("Const", <<2, 1>>, <<>>, "i", 3, {}),                              \* 16 2
  Leaf("Const", <<3, 1, -2, 1>>, <<2>>, "i", 0, {}),                      \* 17 [3, -2]
  Leaf("Const", <<1, 1, 0, 1>>, <<2>>, "b", 0, {}),                       \* 18 [True, False]
  Leaf("Zeros", <<>>, <<2>>, "f", 0, {}),                                 \* 19
  Leaf("Range", <<2>>, <<2>>, "i", 2, {}),                                \* 20
  Leaf("Range", <<3>>, <<3>>, "i", 3, {}),                                \* 21
  Leaf("LoopIndex", <<1, 2>>, <<>>, "i", 2, {1}),                         \* 22 loop 1, length 2
  Leaf("LoopIndex", <<2, 3>>, <<>>, "i", 3, {2}),                         \* 23 loop 2, length 3
  Leaf("Const", <<-1, 1, 0, 1, 2, 1>>, <<3>>, "f", 0, {}),                \* 24 [-1., 0., 2.]
  Leaf("Const", <<1, 1, 0, 1, 0, 1, 1, 1>>, <<2, 2>>, "i", 2, {}),        \* 25 [[1,0],[0,1]] index matrix
  Leaf("Const", <<3, 1>>, <<1>>, "f", 0, {}),                             \* 26 [3.] (singleton axis)
  Leaf("Const", <<4, 1>>, <<>>, "i", 5, {}),                              \* 27 4 (int)
  Leaf("Arg", <<7>>, <<2, 2, 2>>, "f", 0, {}),                            \* 28 rank-3 argument
  Leaf("Const", <<0, 1, 1, 1, 1, 1, 0, 1>>, <<2, 2>>, "i", 2, {}),        \* 29 [[0,1],[1,0]] index matrix
  Leaf("Const", <<1, 1, 2, 1, 3, 1>>, <<3>>, "f", 0, {}),                 \* 30 [1., 2., 3.]
  Leaf("Arg", <<8>>, <<3, 3>>, "f", 0, {}),                               \* 31 3x3 argument
  Leaf("Const", <<1, 4>>, <<>>, "f", 0, {}),                              \* 32 .25
  Leaf("Const", <<3, 1>>, <<>>, "f", 0, {}),                              \* 33 3.
  Leaf("Const", <<-1, 1>>, <<>>, "f", 0, {}),                             \* 34 -1.
  Leaf("Const", <<1, 8>>, <<>>, "f", 0, {}),                              \* 35 .125
  Leaf("Const", <<3, 2>>, <<>>, "f", 0, {}),                              \* 36 1.5
  Leaf("Const", <<0, 1, 1, 1, 1, 1, 3, 1>>, <<4>>, "i", 4, {}),           \* 37 [0, 1, 1, 3] (non-decreasing, repeated)
  Leaf("Const", <<2, 1, 2, 1, 4, 1>>, <<3>>, "i", 5, {}),                 \* 38 [2, 2, 4]
  Leaf("Const", <<2, 1, 0, 1, 1, 1>>, <<3>>, "i", 3, {}),                 \* 39 [2, 0, 1] (permutation of 3)
  Leaf("Arg", <<9>>, <<4>>, "f", 0, {}),                                  \* 40 length-4 argument
  \* ---- 41.. : extended vocabulary (not in AllLeaves; used by dedicated families)
  Leaf("Arg", <<10>>, <<2>>, "c", 0, {}),                                 \* 41 complex argument
  Leaf("Arg", <<11>>, <<>>, "c", 0, {}),                                  \* 42 complex scalar argument
  Leaf("Arg", <<12>>, <<2, 2>>, "c", 0, {}),                              \* 43 complex 2x2 argument
  Leaf("Const", <<1, 1, 1, 1, 0, 1, -1, 1>>, <<2>>, "c", 0, {}),          \* 44 [1+1i, -1i]
  Leaf("Const", <<2, 1, 0, 1>>, <<>>, "c", 1, {}),                        \* 45 2+0i (integer exponent)
  Leaf("Const", <<3, 1, 0, 1>>, <<>>, "c", 1, {}),                        \* 46 3+0i
  Leaf("Const", <<-1, 1, 0, 1>>, <<>>, "c", 1, {}),                       \* 47 -1+0i
  Leaf("Const", <<0, 1, 1, 1>>, <<>>, "c", 0, {}),                        \* 48 1i
  Leaf("Const", <<1, 1, 1, 1, 1, 1, 0, 1, 0, 1, 0, 1, 1, 1, -1, 1>>, <<2, 2>>, "c", 0, {}),  \* 49 [[1+1i, 1], [0, 1-1i]] (det 2)
  Leaf("Zeros", <<>>, <<2>>, "c", 0, {}),                                 \* 50 complex zeros
  Leaf("Const", <<2, 1, 0, 1, 2, 1, 0, 1>>, <<2>>, "c", 1, {}),           \* 51 [2+0i, 2+0i] (uniform integer exponent)
  Leaf("Const", <<1, 2, -1, 1>>, <<>>, "c", 0, {}),                       \* 52 .5-1i
  Leaf("Const", <<1, 1, -1, 1, 2, 1, 0, 1, 1, 2, 3, 1>>, <<6>>, "f", 0, {}),  \* 53 [1, -1, 2, 0, .5, 3] (6 coefficients: 2 variables, degree 2)
  Leaf("Arg", <<13>>, <<6>>, "f", 0, {}),                                 \* 54 length-6 argument
  Leaf("Const", <<1, 1, 2, 1, -1, 1, 0, 1, 3, 1, 1, 1>>, <<2, 3>>, "f", 0, {}),  \* 55 [[1, 2, -1], [0, 3, 1]] (two coefficient rows)
  Leaf("Const", <<1, 1>>, <<>>, "i", 2, {}),                              \* 56 1 (int)
  Leaf("Const", <<1, 2, 2, 1>>, <<2>>, "f", 0, {}),                       \* 57 [.5, 2.]
  Leaf("Arg", <<14>>, <<>>, "i", 0, {}),                                  \* 58 scalar integer argument (loop length via InRange)
  Leaf("Const", <<7, 1, 2, 1, 9, 1, 0, 1, 11, 1, 4, 1, 5, 1, 10, 1, 1, 1, 8, 1, 3, 1, 6, 1>>, <<2, 2, 3>>, "i", 12, {}),  \* 59 rank-3 index block, distinct entries 0..11
  Leaf("Arg", <<15>>, <<2, 2, 3>>, "f", 0, {})                            \* 60 argument of shape (2, 2, 3)
>>

\* fixed environment for the model-internal sanity invariants (and for evaluating loop dependent lengths, which do
\* not depend on arguments)
TestEnv == << ArgArr(<<2>>, <<1, 2>>, 0), ArgArr(<<2, 2>>, <<1, 2, 3, 5>>, 0), ArgArr(<<>>, <<2>>, 0),
              ArgArr(<<3>>, <<1, 2, 3>>, 0), ArgArr(<<2>>, <<1, 0>>, 0), ArgArr(<<2>>, <<1, 0>>, 0),
              ArgArr(<<2, 2, 2>>, <<1, 2, 3, 4, 5, 6, 7, 9>>, 0), ArgArr(<<3, 3>>, <<2, 1, 0, 1, 3, 1, 0, 1, 2>>, 0),
              ArgArr(<<4>>, <<1, 2, 3, 4>>, 0),
              ArgArr(<<2>>, <<1, 2, 2, -1>>, 0), ArgArr(<<>>, <<2, 1>>, 0), ArgArr(<<2, 2>>, <<1, 2, 0, 1, 1, 0, -1, 2>>, 0),
              ArgArr(<<6>>, <<1, 2, -1, 3, 0, 2>>, 0), ArgArr(<<>>, <<2>>, 0),
              ArgArr(<<2, 2, 3>>, <<1, 2, 3, 4, 5, 6, 7, 8, 9, -1, -2, -3>>, 0) >>

IsLeaf(n) == Len(n.d) = 0
NOps == Cardinality({k \in 1..Len(nodes) : ~IsLeaf(nodes[k])})
NLeaves == Cardinality({k \in 1..Len(nodes) : IsLeaf(nodes[k])})
Used(k) == \E m \in (k + 1)..Len(nodes) : \E j \in 1..Len(nodes[m].d) : nodes[m].d[j] = k
Unused == {k \in 1..Len(nodes) : ~Used(k)}
L == Len(nodes)
Nd(k) == nodes[k]
Num(dt) == dt \in {"i", "f"}
Rank(k) == Len(Nd(k).sh)
LastLen(k) == Nd(k).sh[Rank(k)]
\* loop dependent axis lengths: a negative shape entry -k is the value of the scalar integer node k.  Only the LAST axis of
\* a node may be dynamic; most constructors demand static operands, the exceptions are noted at the actions.
Static(k) == \A i \in 1..Rank(k) : Nd(k).sh[i] >= 0
DynLast(k) == Rank(k) >= 1 /\ LastLen(k) < 0

Push(n) == nodes' = Append(nodes, n) /\ UNCHANGED fam

\* operand choice: i ranges over all nodes, the last node must be among the operands
Pairs == {<<i, j>> \in (1..L) \X (1..L) : i = L \/ j = L}
Same(i, j) == Nd(i).sh = Nd(j).sh /\ Nd(i).dt = Nd(j).dt
Lp2(i, j) == Nd(i).lp \cup Nd(j).lp

\* a vocabulary with a macro step is a directed family: its programs begin with a macro chain
MacroFamily == "MacroArgLoop" \in Ops \/ "MacroLenTab" \in Ops \/ "MacroUVC" \in Ops
AddLeaf == /\ NLeaves < MaxLeaves /\ Cardinality(Unused) <= 1 /\ (MacroFamily => L > 0)
           /\ \E l \in LeafSet : Push(LeafPool[l])

Unary(op, dts, keepix) ==
    /\ op \in Ops /\ L >= 1 /\ Nd(L).dt \in dts
    /\ Push(Node(op, <<L>>, <<>>, Nd(L).sh, Nd(L).dt, IF keepix THEN Nd(L).ix ELSE 0, Nd(L).lp))

Binary(op, dts, rdt) ==
    /\ op \in Ops
    /\ \E ij \in Pairs : /\ Same(ij[1], ij[2]) /\ Nd(ij[1]).dt \in dts
                         /\ Push(Node(op, <<ij[1], ij[2]>>, <<>>, Nd(ij[1]).sh, IF rdt = "same" THEN Nd(ij[1]).dt ELSE rdt, 0, Lp2(ij[1], ij[2])))

\* Power: float base any float exponent; int base only constant non-negative exponents; complex base with an
\* integer-valued complex exponent (ix = 1)
APower == /\ "Power" \in Ops
          /\ \E ij \in Pairs : /\ Same(ij[1], ij[2]) /\ Nd(ij[1]).dt \in {"f", "i", "c"}
                               /\ (Nd(ij[1]).dt \in {"i", "c"} => Nd(ij[2]).ix > 0)
                               /\ Push(Node("Power", <<ij[1], ij[2]>>, <<>>, Nd(ij[1]).sh, Nd(ij[1]).dt, 0, Lp2(ij[1], ij[2])))

ACast == \/ /\ "BoolToInt" \in Ops /\ L >= 1 /\ Nd(L).dt = "b"
            /\ Push(Node("BoolToInt", <<L>>, <<>>, Nd(L).sh, "i", 2, Nd(L).lp))
         \/ /\ "IntToFloat" \in Ops /\ L >= 1 /\ Nd(L).dt = "i"
            /\ Push(Node("IntToFloat", <<L>>, <<>>, Nd(L).sh, "f", 0, Nd(L).lp))
         \/ /\ "FloatToComplex" \in Ops /\ L >= 1 /\ Nd(L).dt = "f"
            /\ Push(Node("FloatToComplex", <<L>>, <<>>, Nd(L).sh, "c", 0, Nd(L).lp))

\* complex -> float parts, conjugation, modulus (Absolute of a complex operand is float)
AComplex == \/ \E op \in {"Real", "Imag"} \cap Ops : /\ L >= 1 /\ Nd(L).dt = "c"
                                                     /\ Push(Node(op, <<L>>, <<>>, Nd(L).sh, "f", 0, Nd(L).lp))
            \/ /\ "Conjugate" \in Ops /\ L >= 1 /\ Nd(L).dt = "c"
               /\ Push(Node("Conjugate", <<L>>, <<>>, Nd(L).sh, "c", Nd(L).ix, Nd(L).lp))
            \/ /\ "Absolute" \in Ops /\ L >= 1 /\ Nd(L).dt = "c"
               /\ Push(Node("Absolute", <<L>>, <<>>, Nd(L).sh, "f", 0, Nd(L).lp))

AInsert == /\ "InsertAxis" \in Ops /\ L >= 1 /\ Rank(L) <= 2 /\ Static(L)
           /\ \E n \in {1, 2, 3} : Push(Node("InsertAxis", <<L>>, <<n>>, Append(Nd(L).sh, n), Nd(L).dt, Nd(L).ix, Nd(L).lp))

Perms(r) == IF r = 2 THEN {<<1, 0>>} ELSE IF r = 3 THEN {<<0, 2, 1>>, <<1, 0, 2>>, <<1, 2, 0>>, <<2, 0, 1>>, <<2, 1, 0>>} ELSE {}
ATransp == /\ "Transpose" \in Ops /\ L >= 1 /\ Static(L)
           /\ \E axes \in Perms(Rank(L)) :
                Push(Node("Transpose", <<L>>, axes, [i \in 1..Rank(L) |-> Nd(L).sh[axes[i] + 1]], Nd(L).dt, Nd(L).ix, Nd(L).lp))

AReduce == \E op \in {"Sum", "Product"} \cap Ops :
              /\ L >= 1 /\ Rank(L) >= 1
              /\ Push(Node(op, <<L>>, <<>>, SFront(Nd(L).sh), Nd(L).dt, 0, Nd(L).lp))

\* Take(func, indices): along the last axis of func
ATakeOp == /\ "Take" \in Ops
           /\ \E ij \in Pairs : /\ Rank(ij[1]) >= 1 /\ Nd(ij[2]).dt = "i" /\ Nd(ij[2]).ix > 0 /\ Static(ij[1])     \* the indices may be dynamic
                                /\ Nd(ij[2]).ix <= LastLen(ij[1])
                                /\ Rank(ij[1]) - 1 + Rank(ij[2]) <= 3
                                /\ Push(Node("Take", <<ij[1], ij[2]>>, <<>>, SFront(Nd(ij[1]).sh) \o Nd(ij[2]).sh,
                                             Nd(ij[1]).dt, Nd(ij[1]).ix, Lp2(ij[1], ij[2])))

ATakeDiagOp == /\ "TakeDiag" \in Ops /\ L >= 1 /\ Rank(L) >= 2 /\ Static(L) /\ Nd(L).sh[Rank(L)] = Nd(L).sh[Rank(L) - 1]
               /\ Push(Node("TakeDiag", <<L>>, <<>>, SFront(Nd(L).sh), Nd(L).dt, Nd(L).ix, Nd(L).lp))

ADiagOp == /\ "Diagonalize" \in Ops /\ L >= 1 /\ Rank(L) >= 1 /\ Rank(L) <= 2 /\ Static(L)
           /\ Push(Node("Diagonalize", <<L>>, <<>>, Append(Nd(L).sh, LastLen(L)), Nd(L).dt, 0, Nd(L).lp))

\* Inflate(func, dofmap, length): func.shape ends with dofmap.shape (both may end in the same dynamic axis)
AInflateOp == /\ "Inflate" \in Ops
              /\ \E ij \in Pairs : \E len \in {2, 3} \cup (IF Nd(ij[2]).ix = 12 THEN {12} ELSE {}) :     \* 12: the rank-3 index block
                    /\ Nd(ij[1]).dt \in {"f", "i", "b", "c"} /\ Nd(ij[2]).dt = "i" /\ Nd(ij[2]).ix > 0 /\ Nd(ij[2]).ix <= len
                    /\ Rank(ij[2]) <= Rank(ij[1])
                    /\ SubSeq(Nd(ij[1]).sh, Rank(ij[1]) - Rank(ij[2]) + 1, Rank(ij[1])) = Nd(ij[2]).sh
                    /\ Push(Node("Inflate", <<ij[1], ij[2]>>, <<len>>,
                                 Append(SubSeq(Nd(ij[1]).sh, 1, Rank(ij[1]) - Rank(ij[2])), len), Nd(ij[1]).dt, 0, Lp2(ij[1], ij[2])))

ARavelOp == /\ "Ravel" \in Ops /\ L >= 1 /\ Rank(L) >= 2 /\ Static(L)
            /\ Push(Node("Ravel", <<L>>, <<>>, Append(SubSeq(Nd(L).sh, 1, Rank(L) - 2), Nd(L).sh[Rank(L) - 1] * LastLen(L)),
                         Nd(L).dt, Nd(L).ix, Nd(L).lp))

AUnravelOp == /\ "Unravel" \in Ops /\ L >= 1 /\ Rank(L) >= 1 /\ Rank(L) <= 2 /\ Static(L)
              /\ \E s \in {<<1, 2>>, <<2, 1>>, <<2, 2>>, <<1, 3>>, <<3, 1>>, <<2, 3>>, <<3, 2>>, <<1, 1>>} :
                    /\ s[1] * s[2] = LastLen(L)
                    /\ Push(Node("Unravel", <<L>>, s, SFront(Nd(L).sh) \o s, Nd(L).dt, Nd(L).ix, Nd(L).lp))

ARavelIndexOp == /\ "RavelIndex" \in Ops
                 /\ \E ij \in Pairs : /\ Nd(ij[1]).ix > 0 /\ Nd(ij[2]).ix > 0 /\ Rank(ij[1]) + Rank(ij[2]) <= 3
                                      /\ Nd(ij[1]).dt = "i" /\ Nd(ij[2]).dt = "i" /\ Static(ij[1]) /\ Static(ij[2])
                                      /\ Push(Node("RavelIndex", <<ij[1], ij[2]>>, <<Nd(ij[1]).ix, Nd(ij[2]).ix>>,
                                                   Nd(ij[1]).sh \o Nd(ij[2]).sh, "i", Nd(ij[1]).ix * Nd(ij[2]).ix, Lp2(ij[1], ij[2])))

\* Choose(index, choices): choices.shape = index.shape ++ <<nchoices>>
AChooseOp == /\ "Choose" \in Ops
             /\ \E ij \in Pairs : /\ Nd(ij[1]).ix > 0 /\ Nd(ij[1]).dt = "i" /\ Rank(ij[2]) = Rank(ij[1]) + 1
                                  /\ SFront(Nd(ij[2]).sh) = Nd(ij[1]).sh /\ Nd(ij[1]).ix <= LastLen(ij[2]) /\ Static(ij[2])
                                  /\ Push(Node("Choose", <<ij[1], ij[2]>>, <<>>, Nd(ij[1]).sh, Nd(ij[2]).dt, 0, Lp2(ij[1], ij[2])))

\* InRange(index, length) turns an arbitrary integer node into an index
AInRangeOp == /\ "InRange" \in Ops /\ L >= 1 /\ Nd(L).dt = "i" /\ Nd(L).ix = 0
              /\ \E n \in {2, 3} : Push(Node("InRange", <<L>>, <<n>>, Nd(L).sh, "i", n, Nd(L).lp))

ALinalg == \E op \in {"Determinant", "Inverse"} \cap Ops :
              /\ L >= 1 /\ Nd(L).dt \in {"f", "c"} /\ Rank(L) >= 2 /\ Static(L) /\ LastLen(L) = Nd(L).sh[Rank(L) - 1] /\ LastLen(L) <= 2
              /\ Push(Node(op, <<L>>, <<>>, IF op = "Inverse" THEN Nd(L).sh ELSE SubSeq(Nd(L).sh, 1, Rank(L) - 2), Nd(L).dt, 0, Nd(L).lp))

\* Polyval(coeffs, points): points.shape[-1] = number of variables (1 or 2; 2 only in vocabularies with "PolyGrad" or the
\* flag "Polyval2", which keeps the base vocabulary as it was); the number of coefficients must be that of some degree
APolyvalOp == /\ "Polyval" \in Ops
              /\ \E ij \in Pairs : /\ Nd(ij[1]).dt = "f" /\ Nd(ij[2]).dt = "f" /\ Rank(ij[1]) >= 1 /\ Rank(ij[2]) >= 1
                                   /\ Static(ij[1]) /\ Static(ij[2])
                                   /\ (LastLen(ij[2]) = 1 \/ (LastLen(ij[2]) = 2 /\ {"PolyGrad", "Polyval2"} \cap Ops # {}))
                                   /\ LastLen(ij[1]) >= 1 /\ PolyDeg(LastLen(ij[2]), LastLen(ij[1])) >= 0
                                   /\ Rank(ij[1]) + Rank(ij[2]) - 2 <= 3
                                   /\ Push(Node("Polyval", <<ij[1], ij[2]>>, <<>>, SFront(Nd(ij[2]).sh) \o SFront(Nd(ij[1]).sh), "f", 0, Lp2(ij[1], ij[2])))

\* PolyMul(left, right, vars): vars[v] = 0 (left only), 1 (right only), 2 (both)
PolyVarsSet == {<<2>>, <<0, 1>>, <<1, 0>>, <<2, 2>>, <<0, 2>>, <<2, 1>>}
APolyMulOp == /\ "PolyMul" \in Ops
              /\ \E ij \in Pairs : \E vars \in PolyVarsSet :
                    LET nvl == Cardinality({v \in 1..Len(vars) : vars[v] # 1})
                        nvr == Cardinality({v \in 1..Len(vars) : vars[v] # 0})
                    IN /\ Nd(ij[1]).dt = "f" /\ Nd(ij[2]).dt = "f" /\ Rank(ij[1]) \in {1, 2} /\ Rank(ij[2]) = Rank(ij[1])
                       /\ Static(ij[1]) /\ Static(ij[2])
                       /\ SFront(Nd(ij[1]).sh) = SFront(Nd(ij[2]).sh) /\ LastLen(ij[1]) >= 1 /\ LastLen(ij[2]) >= 1
                       /\ PolyDeg(nvl, LastLen(ij[1])) >= 0 /\ PolyDeg(nvr, LastLen(ij[2])) >= 0
                       /\ PolyDeg(nvl, LastLen(ij[1])) + PolyDeg(nvr, LastLen(ij[2])) <= 3
                       /\ Push(Node("PolyMul", <<ij[1], ij[2]>>, vars,
                                    Append(SFront(Nd(ij[1]).sh), PolyNC(Len(vars), PolyDeg(nvl, LastLen(ij[1])) + PolyDeg(nvr, LastLen(ij[2])))),
                                    "f", 0, Lp2(ij[1], ij[2])))
APolyGradOp == /\ "PolyGrad" \in Ops /\ L >= 1 /\ Nd(L).dt = "f" /\ Rank(L) \in {1, 2} /\ Static(L) /\ LastLen(L) >= 1
               /\ \E nv \in {1, 2} :
                     /\ PolyDeg(nv, LastLen(L)) >= 0
                     /\ Push(Node("PolyGrad", <<L>>, <<nv>>,
                                  SFront(Nd(L).sh) \o <<nv, PolyNC(nv, IF PolyDeg(nv, LastLen(L)) > 0 THEN PolyDeg(nv, LastLen(L)) - 1 ELSE 0)>>,
                                  "f", 0, Nd(L).lp))
\* PolyNCoeffs(nvars, degree), PolyDegree(ncoeffs, nvars) on scalar integer nodes
APolyCountOp == \/ /\ "PolyNCoeffs" \in Ops /\ L >= 1 /\ Nd(L).dt = "i" /\ Rank(L) = 0 /\ Nd(L).ix > 0 /\ Nd(L).ix - 1 <= 4
                   /\ \E nv \in {1, 2} : Push(Node("PolyNCoeffs", <<L>>, <<nv>>, <<>>, "i", PolyNC(nv, Nd(L).ix - 1) + 1, Nd(L).lp))
                \/ /\ "PolyDegree" \in Ops /\ L >= 1 /\ Nd(L).dt = "i" /\ Rank(L) = 0 /\ Nd(L).ix > 0
                   /\ \E nv \in {1, 2} : /\ (nv = 1 \/ (Nd(L).op = "PolyNCoeffs" /\ Nd(L).p = <<nv>>))
                                         /\ Push(Node("PolyDegree", <<L>>, <<nv>>, <<>>, "i", Nd(L).ix, Nd(L).lp))
ALegendreOp == /\ "Legendre" \in Ops /\ L >= 1 /\ Nd(L).dt = "f" /\ Rank(L) <= 2 /\ Static(L)
               /\ \E deg \in {0, 2, 3} : Push(Node("Legendre", <<L>>, <<deg>>, Append(Nd(L).sh, deg + 1), "f", 0, Nd(L).lp))

\* Einsum(args, args_idx, out_idx) over a table of small index patterns (labels 0, 1, 2): transposed output,
\* diagonal / trace (repeated label in one operand), contraction, outer product, elementwise, three operands
EsPat(ranks, idx, out) == [ranks |-> ranks, idx |-> idx, out |-> out]
EsPatterns == {
    EsPat(<<2>>, <<<<0, 1>>>>, <<1, 0>>),                      \* ij->ji
    EsPat(<<2>>, <<<<0, 0>>>>, <<0>>),                         \* ii->i
    EsPat(<<2>>, <<<<0, 0>>>>, <<>>),                          \* ii->
    EsPat(<<2>>, <<<<0, 1>>>>, <<1>>),                         \* ij->j
    EsPat(<<1>>, <<<<0>>>>, <<>>),                             \* i->
    EsPat(<<3>>, <<<<0, 1, 0>>>>, <<1, 0>>),                   \* iji->ji
    EsPat(<<1, 1>>, <<<<0>>, <<0>>>>, <<>>),                   \* i,i->
    EsPat(<<1, 1>>, <<<<0>>, <<0>>>>, <<0>>),                  \* i,i->i
    EsPat(<<1, 1>>, <<<<0>>, <<1>>>>, <<1, 0>>),               \* i,j->ji
    EsPat(<<2, 1>>, <<<<0, 1>>, <<1>>>>, <<0>>),               \* ij,j->i
    EsPat(<<2, 1>>, <<<<0, 1>>, <<0>>>>, <<1, 0>>),            \* ij,i->ji
    EsPat(<<1, 2>>, <<<<0>>, <<0, 1>>>>, <<1>>),               \* i,ij->j
    EsPat(<<2, 2>>, <<<<0, 1>>, <<1, 2>>>>, <<0, 2>>),         \* ij,jk->ik
    EsPat(<<2, 2>>, <<<<0, 1>>, <<1, 2>>>>, <<2, 0>>),         \* ij,jk->ki
    EsPat(<<2, 2>>, <<<<0, 1>>, <<1, 0>>>>, <<>>),             \* ij,ji->
    EsPat(<<2, 2>>, <<<<0, 1>>, <<0, 1>>>>, <<1>>),            \* ij,ij->j
    EsPat(<<0, 1>>, <<<<>>, <<0>>>>, <<0>>),                   \* ,i->i
    EsPat(<<1, 1, 1>>, <<<<0>>, <<1>>, <<1>>>>, <<0>>),        \* i,j,j->i
    EsPat(<<2, 1, 1>>, <<<<0, 1>>, <<0>>, <<1>>>>, <<>>)       \* ij,i,j->
}
EsEncode(pat) == LET f(q) == <<Len(q)>> \o q IN
                 IF Len(pat.idx) = 1 THEN f(pat.out) \o f(pat.idx[1])
                 ELSE IF Len(pat.idx) = 2 THEN f(pat.out) \o f(pat.idx[1]) \o f(pat.idx[2])
                 ELSE f(pat.out) \o f(pat.idx[1]) \o f(pat.idx[2]) \o f(pat.idx[3])
\* operands ds fit pattern pat: ranks, equal non-boolean dtypes, equal lengths wherever a label recurs
EsFits(pat, ds) ==
    /\ \A i \in 1..Len(ds) : Rank(ds[i]) = pat.ranks[i] /\ Nd(ds[i]).dt = Nd(ds[1]).dt /\ Static(ds[i])
    /\ Nd(ds[1]).dt \in {"i", "f", "c"}
    /\ \A i \in 1..Len(ds), k \in 1..Len(ds) : \A j \in 1..pat.ranks[i], m \in 1..pat.ranks[k] :
          pat.idx[i][j] = pat.idx[k][m] => Nd(ds[i]).sh[j] = Nd(ds[k]).sh[m]
EsShape(pat, ds) == [q \in 1..Len(pat.out) |->
                       LET i == CHOOSE i \in 1..Len(ds) : EsIn(pat.idx[i], pat.out[q]) IN Nd(ds[i]).sh[EsPos(pat.idx[i], pat.out[q])]]
AEinsumOp == /\ "Einsum" \in Ops /\ L >= 1
             /\ \E pat \in EsPatterns :
                   \E ds \in (IF Len(pat.ranks) = 1 THEN {<<L>>}
                              ELSE IF Len(pat.ranks) = 2 THEN {<<ij[1], ij[2]>> : ij \in Pairs}
                              ELSE {<<ij[1], ij[2], ij[2]>> : ij \in Pairs}) :
                       /\ EsFits(pat, ds)
                       /\ Push(Node("Einsum", ds, EsEncode(pat), EsShape(pat, ds), Nd(ds[1]).dt, 0,
                                    UNION {Nd(ds[i]).lp : i \in 1..Len(ds)}))

LoopLen(l) == IF l = 1 THEN 2 ELSE 3
\* loops 1 and 2 have static lengths; loop 3 runs over the value of a closed scalar integer node (e.g. InRange of an
\* integer argument): LoopIndexN introduces its index, LoopSumN sums over it (a LoopConcat over it would have an
\* argument dependent shape and is not built)
ArgLoop == 3
ArgLoopLen == {Nd(m).d[1] : m \in {m \in 1..L : Nd(m).op = "LoopIndexN"}}      \* the length node, once the index exists
ALoopNOp == \/ /\ "LoopIndexN" \in Ops /\ L >= 1 /\ Nd(L).dt = "i" /\ Rank(L) = 0 /\ Nd(L).ix > 0 /\ Nd(L).ix <= 4 /\ Nd(L).lp = {}
               /\ ArgLoopLen \subseteq {L}
               /\ Push(Node("LoopIndexN", <<L>>, <<ArgLoop>>, <<>>, "i", IF Nd(L).ix > 1 THEN Nd(L).ix - 1 ELSE 1, {ArgLoop}))
            \/ /\ "LoopSumN" \in Ops /\ L >= 1 /\ Nd(L).dt \in {"i", "f", "c"} /\ Static(L) /\ ArgLoop \in Nd(L).lp
               /\ \E k \in ArgLoopLen : Push(Node("LoopSumN", <<L, k>>, <<ArgLoop>>, Nd(L).sh, Nd(L).dt, 0, Nd(L).lp \ {ArgLoop}))
\* Monomial(values, args, indices, powers): values rank 1; one factor x[i] (x rank 1, i an index vector of the length of
\* values), the same factor twice (powers <<2, 1>>: x[i]^2), or a scalar factor (no indices)
AMonomialOp == /\ "Monomial" \in Ops /\ L >= 1
               /\ \E v \in 1..L, x \in 1..L :
                     /\ Nd(v).dt = "f" /\ Rank(v) = 1 /\ Static(v) /\ LastLen(v) >= 1 /\ Nd(x).dt = "f" /\ Static(x)
                     /\ \/ /\ Rank(x) = 0 /\ (v = L \/ x = L)
                           /\ Push(Node("Monomial", <<v, x>>, <<1>>, Nd(v).sh, "f", 0, Lp2(v, x)))
                        \/ /\ Rank(x) = 1
                           /\ \E i \in 1..L : /\ (v = L \/ x = L \/ i = L)
                                               /\ Nd(i).dt = "i" /\ Nd(i).sh = Nd(v).sh /\ Nd(i).ix > 0 /\ Nd(i).ix <= LastLen(x)
                                               /\ \/ Push(Node("Monomial", <<v, x, i>>, <<1>>, Nd(v).sh, "f", 0, Lp2(v, x) \cup Nd(i).lp))
                                                  \/ Push(Node("Monomial", <<v, x, i, x, i>>, <<2, 1>>, Nd(v).sh, "f", 0, Lp2(v, x) \cup Nd(i).lp))

\* Macro steps push a short chain of nodes at once, so that the structures below are reachable at small depth (the chain
\* could also be built node by node from the general actions):
\*   MacroArgLoop: Argument a14 (int scalar), InRange(a14, 3), loop index of loop 3 whose length is that node
\*   MacroLenTab : Constant size table, loop index l, Take(table, index): a loop dependent axis length (sizes 1,0 / 2,0,1)
AMacro == \/ /\ "MacroArgLoop" \in Ops /\ ArgLoopLen = {} /\ NLeaves < MaxLeaves /\ NOps + 2 <= MaxOps /\ L + 3 <= MaxNodes /\ Cardinality(Unused) <= 1
             /\ nodes' = nodes \o << LeafPool[58], Node("InRange", <<L + 1>>, <<3>>, <<>>, "i", 3, {}),
                                    Node("LoopIndexN", <<L + 2>>, <<ArgLoop>>, <<>>, "i", 2, {ArgLoop}) >>
             /\ UNCHANGED fam
          \*   MacroUVC    : three 3x3 factors of a product u_i v_j C_ij: U = InsertAxis(Inflate(a1, [1,0], 3), 3) (varies along axis 0),
          \*                 V = Transpose(InsertAxis(Inflate([1.,2.], Range(2), 3), 3)) (varies along axis 1), C = argument a8; the
          \*                 factor named by `last` is pushed last (the next constructor must use it), so all bracketings arise
          \/ /\ "MacroUVC" \in Ops /\ L = 0 /\ NLeaves + 5 <= MaxLeaves /\ NOps + 5 <= MaxOps /\ L + 10 <= MaxNodes
             /\ \E last \in {"U", "V", "C"} :
                   LET U(o) == << LeafPool[1], LeafPool[13], Node("Inflate", <<o + 1, o + 2>>, <<3>>, <<3>>, "f", 0, {}),
                                  Node("InsertAxis", <<o + 3>>, <<3>>, <<3, 3>>, "f", 0, {}) >>
                       V(o) == << LeafPool[7], LeafPool[20], Node("Inflate", <<o + 1, o + 2>>, <<3>>, <<3>>, "f", 0, {}),
                                  Node("InsertAxis", <<o + 3>>, <<3>>, <<3, 3>>, "f", 0, {}),
                                  Node("Transpose", <<o + 4>>, <<1, 0>>, <<3, 3>>, "f", 0, {}) >>
                       C == << LeafPool[31] >>
                   IN nodes' = IF last = "C" THEN U(0) \o V(4) \o C ELSE IF last = "V" THEN U(0) \o C \o V(5) ELSE V(0) \o C \o U(6)
             /\ UNCHANGED fam
          \/ /\ "MacroLenTab" \in Ops /\ NLeaves + 2 <= MaxLeaves /\ NOps + 1 <= MaxOps /\ L + 3 <= MaxNodes /\ Cardinality(Unused) <= 1
             /\ \E l \in {1, 2} :
                   nodes' = nodes \o << LeafPool[IF l = 1 THEN 13 ELSE 39], LeafPool[IF l = 1 THEN 22 ELSE 23],
                                       Node("Take", <<L + 1, L + 2>>, <<>>, <<>>, "i", IF l = 1 THEN 2 ELSE 3, {l}) >>
             /\ UNCHANGED fam
ALoopSumOp == /\ "LoopSum" \in Ops /\ L >= 1 /\ Nd(L).dt \in {"i", "f", "c"} /\ Static(L)
              /\ \E l \in Nd(L).lp \cap {1, 2} : Push(Node("LoopSum", <<L>>, <<l, LoopLen(l)>>, Nd(L).sh, Nd(L).dt, 0, Nd(L).lp \ {l}))
\* value of the length node k at iteration i of loop l (length nodes do not depend on arguments)
LenAt(k, l, i) == LenVal(Ev(nodes, k, TestEnv, [<<0, 0, 0>> EXCEPT ![l] = i]))
RECURSIVE LenTotal(_, _, _)
LenTotal(k, l, i) == IF i < 0 THEN 0 ELSE LenAt(k, l, i) + LenTotal(k, l, i - 1)
ALoopConcatOp == \/ /\ "LoopConcat" \in Ops /\ L >= 1 /\ Rank(L) >= 1 /\ Static(L) /\ LastLen(L) * 3 <= 9
                    /\ \E l \in Nd(L).lp \cap {1, 2} : Push(Node("LoopConcat", <<L>>, <<l, LoopLen(l), LastLen(L)>>,
                                                     Append(SFront(Nd(L).sh), LastLen(L) * LoopLen(l)), Nd(L).dt, 0, Nd(L).lp \ {l}))
                 \* element dependent chunk sizes: the last axis has the loop dependent length of node k = -LastLen(L); the
                 \* concatenated length is the sum of that node's values over the loop (chunk size parameter 0)
                 \/ /\ "LoopConcat" \in Ops /\ L >= 1 /\ DynLast(L)
                    /\ \E l \in Nd(L).lp \cap {1, 2} : /\ Nd(-LastLen(L)).lp = {l}
                                           /\ Push(Node("LoopConcat", <<L>>, <<l, LoopLen(l), 0>>,
                                                        Append(SFront(Nd(L).sh), LenTotal(-LastLen(L), l, LoopLen(l) - 1)), Nd(L).dt, 0, Nd(L).lp \ {l}))

\* nodes usable as a loop dependent axis length: scalar integer, values certainly in 0..3, independent of arguments,
\* dependent on exactly one loop
LenNode(k) == Nd(k).dt = "i" /\ Rank(k) = 0 /\ Nd(k).ix > 0 /\ Nd(k).ix <= 4 /\ Cardinality(Nd(k).lp) = 1 /\ Nd(k).lp \subseteq {1, 2} /\ ~DepArg(nodes, k)
\* Range(length node), InsertAxis(func, length node)
ADynOp == \/ /\ "RangeN" \in Ops /\ L >= 1 /\ LenNode(L)
             /\ Push(Node("RangeN", <<L>>, <<>>, <<-L>>, "i", IF Nd(L).ix > 1 THEN Nd(L).ix - 1 ELSE 1, Nd(L).lp))
          \/ /\ "InsertAxisN" \in Ops
             /\ \E ij \in Pairs : /\ LenNode(ij[2]) /\ Static(ij[1]) /\ Rank(ij[1]) <= 1 /\ ij[1] # ij[2]
                                  /\ Push(Node("InsertAxisN", <<ij[1], ij[2]>>, <<>>, Append(Nd(ij[1]).sh, -ij[2]), Nd(ij[1]).dt, Nd(ij[1]).ix, Lp2(ij[1], ij[2])))

\* ---- integer / search constructors
ASearchOp ==
    \* Find(where): the (data dependent) length is Sum(BoolToInt(where)), which must be the last node: static when closed,
    \* else a loop dependent length; where must not depend on arguments
    \/ /\ "Find" \in Ops /\ L >= 3 /\ Nd(L).op = "Sum" /\ Nd(Nd(L).d[1]).op = "BoolToInt" /\ Rank(L) = 0 /\ ~DepArg(nodes, L)
       /\ Cardinality(Nd(L).lp) <= 1
       /\ LET w == Nd(Nd(L).d[1]).d[1] IN
             /\ Static(w) /\ LastLen(w) <= 3
             /\ Push(Node("Find", <<w, L>>, <<>>, IF Nd(L).lp = {} THEN <<LenVal(Ev(nodes, L, TestEnv, <<0, 0, 0>>))>> ELSE <<-L>>, "i",
                          IF LastLen(w) > 0 THEN LastLen(w) ELSE 1, Nd(L).lp))
    \* SearchSorted(arg, array[, sorter = ArgSort(array)], side)
    \/ /\ "SearchSorted" \in Ops
       /\ \E ij \in Pairs : \E side \in {0, 1} :
             /\ Nd(ij[1]).dt \in {"i", "f"} /\ Nd(ij[2]).dt = Nd(ij[1]).dt /\ Rank(ij[2]) = 1 /\ Static(ij[1]) /\ Static(ij[2]) /\ Rank(ij[1]) <= 2
             /\ \/ Push(Node("SearchSorted", <<ij[1], ij[2]>>, <<side>>, Nd(ij[1]).sh, "i", LastLen(ij[2]) + 1, Lp2(ij[1], ij[2])))
                \/ \E k \in 1..L : /\ Nd(k).op = "ArgSort" /\ Nd(k).d = <<ij[2]>>
                                    /\ Push(Node("SearchSorted", <<ij[1], ij[2], k>>, <<side>>, Nd(ij[1]).sh, "i", LastLen(ij[2]) + 1, Lp2(ij[1], ij[2])))
    \/ /\ "ArgSort" \in Ops /\ L >= 1 /\ Nd(L).dt \in {"i", "f"} /\ Rank(L) >= 1 /\ Static(L)
       /\ Push(Node("ArgSort", <<L>>, <<>>, Nd(L).sh, "i", IF LastLen(L) > 0 THEN LastLen(L) ELSE 1, Nd(L).lp))
    \/ /\ "UniqueMask" \in Ops /\ L >= 1 /\ Nd(L).dt \in {"i", "f"} /\ Rank(L) = 1 /\ Static(L)
       /\ Push(Node("UniqueMask", <<L>>, <<>>, Nd(L).sh, "b", 0, Nd(L).lp))
    \* UniqueInverse(mask, sorter): sorter must be a permutation: an ArgSort node or the constant permutations of the pool
    \/ /\ "UniqueInverse" \in Ops
       /\ \E ij \in Pairs : /\ Nd(ij[1]).dt = "b" /\ Rank(ij[1]) = 1 /\ Nd(ij[2]).dt = "i" /\ Nd(ij[2]).sh = Nd(ij[1]).sh /\ Static(ij[1])
                            /\ (Nd(ij[2]).op = "ArgSort" \/ (Nd(ij[2]).op = "Const" /\ Nd(ij[2]).p \in {<<1, 1, 0, 1>>, <<2, 1, 0, 1, 1, 1>>}) \/ Nd(ij[2]).op = "Range")
                            /\ Push(Node("UniqueInverse", <<ij[1], ij[2]>>, <<>>, Nd(ij[2]).sh, "i",
                                         \* cumsum(mask) - 1 is an index only for a genuine unique mask (first entry set)
                                         IF Nd(ij[1]).op = "UniqueMask" /\ LastLen(ij[2]) > 0 THEN LastLen(ij[2]) ELSE 0, Lp2(ij[1], ij[2])))
    \/ /\ "SizesToOffsets" \in Ops /\ L >= 1 /\ Nd(L).dt = "i" /\ Rank(L) = 1 /\ Static(L) /\ Nd(L).ix > 0
       /\ Push(Node("SizesToOffsets", <<L>>, <<>>, <<LastLen(L) + 1>>, "i", LastLen(L) * (Nd(L).ix - 1) + 1, Nd(L).lp))
    \* CompressIndices(indices, length): length a constant scalar leaf
    \/ /\ "CompressIndices" \in Ops
       /\ \E ij \in Pairs : /\ Nd(ij[1]).dt = "i" /\ Rank(ij[1]) = 1 /\ Static(ij[1]) /\ Nd(ij[1]).ix > 0
                            /\ Nd(ij[2]).op = "Const" /\ Nd(ij[2]).dt = "i" /\ Rank(ij[2]) = 0 /\ Nd(ij[2]).p[1] >= Nd(ij[1]).ix
                            /\ Push(Node("CompressIndices", <<ij[1], ij[2]>>, <<>>, <<Nd(ij[2]).p[1] + 1>>, "i", LastLen(ij[1]) + 1, Lp2(ij[1], ij[2])))

AddOp == /\ NOps < MaxOps
         /\ \/ Unary("Negative", {"i", "f", "c"}, FALSE) \/ Unary("Absolute", {"i", "f"}, FALSE) \/ Unary("Sign", {"i", "f"}, FALSE)
            \/ Unary("Reciprocal", {"f", "c"}, FALSE) \/ Unary("LogicalNot", {"b"}, FALSE)
            \/ Binary("Multiply", {"b", "i", "f", "c"}, "same") \/ Binary("Add", {"b", "i", "f", "c"}, "same")
            \/ Binary("Minimum", {"i", "f"}, "same") \/ Binary("Maximum", {"i", "f"}, "same")
            \/ Binary("FloorDivide", {"i", "f"}, "same") \/ Binary("Mod", {"i", "f"}, "same")
            \/ Binary("Equal", {"i", "f", "c"}, "b") \/ Binary("Less", {"i", "f"}, "b") \/ Binary("Greater", {"i", "f"}, "b")
            \/ APower \/ ACast \/ AComplex \/ AInsert \/ ATransp \/ AReduce \/ ATakeOp \/ ATakeDiagOp \/ ADiagOp \/ AInflateOp
            \/ ARavelOp \/ AUnravelOp \/ ARavelIndexOp \/ AChooseOp \/ AInRangeOp \/ ALinalg \/ APolyvalOp
            \/ ALoopSumOp \/ ALoopConcatOp \/ AEinsumOp \/ APolyMulOp \/ APolyGradOp \/ APolyCountOp \/ ALegendreOp
            \/ ADynOp \/ ASearchOp \/ ALoopNOp \/ AMonomialOp

Init == nodes = <<>> /\ fam \in 1..Len(Families)
Next == /\ L < MaxNodes
        /\ (AddLeaf \/ AddOp \/ AMacro)
Spec == Init /\ [][Next]_<<nodes, fam>>

\* ------------------------------------------------------------------ well-formedness of what is built
Complete == L >= 1 /\ Nd(L).lp = {} /\ Unused = {L} /\ NOps >= EmitMin
\* the typing attributes are consistent with ArraySem: checked on every complete
\* program at one fixed environment (model-internal sanity of the builder)
ShapeSound == Complete => Ev(nodes, L, TestEnv, <<0, 0, 0>>).sh = Nd(L).sh
IxSound == (Complete /\ Nd(L).ix > 0) =>
              \A e \in 1..Prod(Nd(L).sh) :
                  LET x == Ev(nodes, L, TestEnv, <<0, 0, 0>>).v[e] IN
                  IF Nd(L).dt = "c" THEN ZIsBad(x) \/ (x[2][1] = RZero /\ RIsInt(x[1][1]))
                  ELSE DIsBad(x) \/ (IdxVal(x) >= 0 /\ IdxVal(x) < Nd(L).ix)

Emit(x) == PrintT(<<"VF", ToJson(x)>>)
JNode(n) == [op |-> n.op, d |-> n.d, p |-> n.p, sh |-> n.sh, dt |-> n.dt, ix |-> n.ix, cl |-> (n.lp = {})]
EmitComplete == Complete => Emit([fam |-> fam, nodes |-> [i \in 1..L |-> JNode(nodes[i])]])
=============================================================================
