----------------------------- MODULE BasisHier -----------------------------
(***************************************************************************)
(* C12 -- HierarchicalTopology._tensorial_bases: the classical (h-) and    *)
(* the truncated (th-) hierarchical basis over a dyadically refined grid.  *)
(*                                                                         *)
(* State: the set of active cells <<level, index>> of the hierarchical     *)
(* mesh (Refine replaces a cell by its 2^D children, as refined_by does).  *)
(* Build: with B_l the tensor product spline basis of level l (module      *)
(* BasisSpline on the grid refined l times) and Omega_l the region covered *)
(* by cells of level >= l, a function of B_l belongs to the hierarchical   *)
(* basis iff its support lies in Omega_l and not in Omega_(l+1)            *)
(* (Vuong et al.; Giannelli et al. for the truncated variant, which keeps  *)
(* the same functions and trims their supports).  The functions are        *)
(* numbered level by level.  On an element of level l the classical basis  *)
(* lists every selected function of a level <= l whose support contains    *)
(* the element; the truncated basis lists a subset of those that contains  *)
(* all selected functions of level l, and sums to one everywhere.          *)
(***************************************************************************)
EXTENDS BasisSpline

CONSTANTS Bases,        \* records [n |-> <<n0>> or <<n0, n1>>, per |-> <<BOOLEAN,..>>, L |-> deepest level of cells]
          MaxCells,     \* bound on the number of active cells
          BuildSet      \* <<kind, degree>>, kind in "h-spline", "th-spline", "h-std", "th-std"

VARIABLES base, act, st, b, hist
vars == <<base, act, st, b, hist>>

Nil == [ne |-> 0, nd |-> 0, ed |-> <<>>, su |-> <<>>, mid |-> <<>>, ifc |-> {}, un |-> {}, edmin |-> <<>>]

MaxLevel == base.L
RECURSIVE HPow2(_)
HPow2(k) == IF k = 0 THEN 1 ELSE 2 * HPow2(k-1)
ND == Len(base.n)
Shape(l) == [d \in 1..ND |-> base.n[d] * HPow2(l)]
NCells(l) == IF ND = 1 THEN Shape(l)[1] ELSE Shape(l)[1] * Shape(l)[2]
Coord(l, e) == IF ND = 1 THEN <<e>> ELSE <<e \div Shape(l)[2], e % Shape(l)[2]>>
Index(l, c) == IF ND = 1 THEN c[1] ELSE c[1] * Shape(l)[2] + c[2]
Anc(l, e, h) == Index(h, [d \in 1..ND |-> Coord(l, e)[d] \div HPow2(l-h)])          \* the level-h cell containing cell (l, e)
Children(l, e) == {Index(l+1, [d \in 1..ND |-> 2*Coord(l, e)[d] + o[d]]) : o \in [1..ND -> {0, 1}]}

Init == base \in Bases /\ act = {<<0, e>> : e \in 0..(IF Len(base.n) = 1 THEN base.n[1] ELSE base.n[1]*base.n[2])-1}
        /\ st = "mesh" /\ b = Nil /\ hist = <<>>

Refine ==
    /\ st = "mesh"
    /\ \E c \in act :
         /\ c[1] < MaxLevel
         /\ Cardinality(act) - 1 + HPow2(ND) <= MaxCells
         /\ act' = (act \ {c}) \cup {<<c[1]+1, k>> : k \in Children(c[1], c[2])}
    /\ UNCHANGED <<base, st, b, hist>>

(* ---- the hierarchical basis --------------------------------------------------------------------------- *)
Act(l) == {c[2] : c \in {x \in act : x[1] = l}}
Cover(l) == {e \in 0..NCells(l)-1 : \E c \in act : c[1] >= l /\ Anc(c[1], c[2], l) = e}    \* Omega_l in cells of level l
CellLess(x, y) == x[1] < y[1] \/ (x[1] = y[1] /\ x[2] < y[2])
CellRank(c) == Cardinality({x \in act : CellLess(x, c)})
Cells == TLCEval([k \in 1..Cardinality(act) |-> CHOOSE c \in act : CellRank(c) = k-1])            \* elements: level by level

LevelPrm(l, d, p, kind) == [p |-> p, n |-> base.n[d] * HPow2(l), per |-> base.per[d], form |-> "none", ms |-> <<>>,
                            k |-> IF kind \in {"h-std", "th-std"} THEN 0 ELSE -1]
LevelBasis(l, p, kind) == IF ND = 1 THEN Spline1D(LevelPrm(l, 1, p, kind))
                          ELSE TensorOp(Spline1D(LevelPrm(l, 1, p, kind)), Spline1D(LevelPrm(l, 2, p, kind)))

(* doubled coordinates on the finest grid *)
CellMid(c) == [d \in 1..ND |-> (2*Coord(c[1], c[2])[d] + 1) * HPow2(MaxLevel - c[1])]
Owner(l, e) == CHOOSE c \in act : c[1] <= l /\ Anc(l, e, c[1]) = c[2]                    \* the active cell covering cell (l, e) of Omega
(* interfaces: every facet of an active cell whose other side is covered by an active cell that is not finer *)
HierIfc(cc) ==
    LET nb(c, d, s) == [Coord(c[1], c[2]) EXCEPT ![d] = IF base.per[d] THEN (@ + s + Shape(c[1])[d]) % Shape(c[1])[d] ELSE @ + s]
        inside(c, x) == \A d \in 1..ND : x[d] >= 0 /\ x[d] < Shape(c[1])[d]
        covered(c, x) == \E o \in act : o[1] <= c[1] /\ Anc(c[1], Index(c[1], x), o[1]) = o[2]
        fkey(c, d, s) == [k \in 1..ND |-> IF k = d THEN LET v == (2*Coord(c[1], c[2])[d] + 1 + s) * HPow2(MaxLevel - c[1])
                                                         IN IF base.per[d] THEN v % (2 * base.n[d] * HPow2(MaxLevel)) ELSE v
                                          ELSE CellMid(c)[k]]
        cand == {<<c, d, s>> \in act \X (1..ND) \X {-1, 1} : inside(c, nb(c, d, s)) /\ covered(c, nb(c, d, s))}
        \* tabulated: the facet key and the cell on the other side
        info == TLCEval({[c |-> q[1], s |-> q[3], key |-> fkey(q[1], q[2], q[3]), o |-> Owner(q[1][1], Index(q[1][1], nb(q[1], q[2], q[3])))] : q \in cand})
        \* an interface between two cells of equal level is seen from both sides: keep the one seen in direction +1
        \* unless the grid has a single cell in that direction and wraps onto itself from both sides
        keep == {q \in info : q.o[1] < q.c[1] \/ q.s = 1 \/ (q.s = -1 /\ ~\E r \in info : r.s = 1 /\ r.key = q.key)}
    IN {[key |-> q.key, a |-> CellRank(q.c), b |-> CellRank(q.o), c |-> cc] : q \in keep}

Hier(kind, p) ==
    LET LB == TLCEval([l \in 0..MaxLevel |-> IF \E c \in act : c[1] >= l THEN LevelBasis(l, p, kind) ELSE [nd |-> 0, su |-> <<>>]])
        AF == TLCEval([l \in 0..MaxLevel |-> LET cov == Cover(l) IN {q \in 0..LB[l].nd-1 : LB[l].su[q+1] \subseteq cov /\ LB[l].su[q+1] \cap Act(l) # {}}])
        off[l \in 0..MaxLevel+1] == IF l = 0 THEN 0 ELSE off[l-1] + Cardinality(AF[l-1])
        dof(l, q) == off[l] + BRank(AF[l], q)
        cells == Cells
        ne == Cardinality(act)
        on(c, h) == {q \in AF[h] : Anc(c[1], c[2], h) \in LB[h].su[q+1]}                 \* selected level-h functions on cell c
        eds == TLCEval([k \in 1..ne |-> UNION {{dof(h, q) : q \in on(cells[k], h)} : h \in 0..cells[k][1]}])
        ed == TLCEval([k \in 1..ne |-> BSorted(eds[k])])
        nd == off[MaxLevel+1]
        full(c) == /\ \A q \in 0..LB[c[1]].nd-1 : c[2] \in LB[c[1]].su[q+1] => q \in AF[c[1]]
                   /\ \A h \in 0..c[1]-1 : on(c, h) = {}
        trunc == kind \in {"th-spline", "th-std"}
    IN [ne |-> ne, nd |-> nd, ed |-> ed, su |-> BSupp(ne, nd, ed),
        mid |-> [k \in 1..ne |-> CellMid(cells[k])],
        ifc |-> HierIfc(IF kind \in {"h-std", "th-std"} THEN 0 ELSE p - 1),
        un |-> IF trunc THEN 0..ne-1 ELSE {k-1 : k \in {j \in 1..ne : full(cells[j])}},
        edmin |-> [k \in 1..ne |-> BSorted({dof(cells[k][1], q) : q \in on(cells[k], cells[k][1])})]]

Build ==
    /\ st = "mesh"
    /\ \E kp \in BuildSet :
         /\ b' = Hier(kp[1], kp[2])
         /\ hist' = <<[op |-> kp[1], p |-> kp[2], n |-> base.n, per |-> base.per, L |-> MaxLevel, cells |-> Cells]>>
    /\ st' = "built" /\ UNCHANGED <<base, act>>

Next == Refine \/ Build
Spec == Init /\ [][Next]_vars

---------------------------------------------------------------------------
HB == [ne |-> b.ne, nd |-> b.nd, ed |-> b.ed, su |-> b.su, mid |-> b.mid, ifc |-> b.ifc, un |-> b.un]
TypeOK == st \in {"mesh", "built"} /\ BWellFormed(HB)
InvInverse == BInverseMaps(HB)
InvNoDead == BNoDeadDof(HB)
(* the active cells partition the domain: every finest cell has exactly one active ancestor *)
InvPartition == \A e \in 0..NCells(MaxLevel)-1 : Cardinality({c \in act : Anc(MaxLevel, e, c[1]) = c[2]}) = 1
(* the truncated basis keeps at least the functions of the element's own level *)
InvMin == st = "built" => \A k \in 1..b.ne : BSet(b.edmin[k]) \subseteq BSet(b.ed[k])
(* without refinement the hierarchical basis is the basis of level 0 and sums to one *)
InvUnrefined == (st = "built" /\ \A c \in act : c[1] = 0) => (b.un = 0..b.ne-1 /\ \A k \in 1..b.ne : b.ed[k] = b.edmin[k])
(* every interface joins two different cells, or the grid is one cell wide and periodic *)
InvIfc == st = "built" => \A i \in b.ifc : i.a # i.b \/ \E d \in 1..ND : base.n[d] = 1 /\ base.per[d]
=============================================================================
