"""C11 part 2b: the structured-topology behaviours of spec/TransformSeq.tla replayed through the
public topology API (mesh.rectilinear, .refined, .boundary[name], .interfaces[name], slicing) and
observed through samples: f_index / f_coords, the geometry on both sides of interfaces, and the
index / coordinate functions of the parent topology evaluated on the derived topology.
The model's predictions (element number, identity coordinates, PhysMap root coordinates, cross
lookup index and tail map) are the oracle.
"""

import numpy

from . import c11_items as ci

TOL = 1e-12
STRUCT_OPS = ('refined', 'boundary', 'interfaces', 'slice')
BASES = {
    'line2': ([2], []), 'line3': ([3], []), 'line3p': ([3], [0]), 'line2p': ([2], [0]),
    'sq22': ([2, 2], []), 'sq21': ([2, 1], []), 'sq12p': ([1, 2], [1]), 'sq22p': ([2, 2], [0]),
    'cube211': ([2, 1, 1], []),
}
BNAMES = (('left', 'right'), ('bottom', 'top'), ('front', 'back'))


def _fail(key, what, data=None):
    from .c11_seq import Failure
    return Failure(key, what, data)


_base_cache = {}


def base_topology(name):
    if name not in _base_cache:
        from nutils import mesh
        shape, periodic = BASES[name]
        _base_cache[name] = mesh.rectilinear([numpy.arange(n + 1, dtype=float) for n in shape], periodic=periodic)
    return _base_cache[name]


def follow(hist):
    """returns (topology, parent topology or None, opposite-side flag, geom)"""
    topo, geom = base_topology(hist[0]['op'])
    parent = None
    for h in hist[1:]:
        op, a = h['op'], h['a']
        parent = None
        if op == 'refined':
            parent, topo = topo, topo.refined
        elif op == 'slice':
            rank, start, stop = a
            topo = topo[(slice(None),) * rank + (slice(start, stop),)]
        elif op == 'boundary':
            rank, side = a
            dimpos = [k for k, axis in enumerate(topo.axes) if axis.isdim]
            parent, topo = topo, topo.boundary[BNAMES[dimpos[rank]][side]]
        elif op == 'interfaces':
            rank, side = a
            it = topo.interfaces['dir{}'.format(rank)]
            parent, topo = topo, (it if side == 1 else ~it)
        else:
            raise ValueError(op)
    return topo, parent, geom


def unwrap(topo):
    while hasattr(topo, 'basetopo') and not hasattr(topo, 'axes') and type(topo).__name__ == 'WithGroupsTopology':
        topo = topo.basetopo
    return topo


def element_points(sample, i):
    return numpy.asarray(sample.points[i].coords, dtype=float)


def check_struct_topology(beh, obj):
    from nutils import function
    hist = beh['hist']
    last = hist[-1]['op'] if len(hist) > 1 else 'base'
    try:
        topo, parent, geom = follow(hist)
    except Exception as e:
        yield _fail('topology:{}:raises-{}'.format(last, type(e).__name__), 'following the route {} through the topology API raised {!r}'.format([h['op'] for h in hist], e))
        return
    seq = topo.transforms
    den = beh['den']
    if seq != obj:
        # not the identical interned object: compare element by element
        try:
            got = [ci.chain_to_abs(c) for c in seq]
        except Exception as e:
            got = repr(e)
        if got != [el['ch'] for el in den]:
            yield _fail('topology:{}:transforms'.format(last), 'the transforms of the topology reached by {} differ from the model'.format([(h['op'], h['a']) for h in hist]), dict(got=got))
            return
    if len(topo) != len(den):
        yield _fail('topology:{}:len'.format(last), 'topology has {} elements, model {}'.format(len(topo), len(den)))
        return
    for scheme, degree in (('gauss', 2), ('bezier', 2)):
        try:
            smp = topo.sample(scheme, degree)
            index, coords, x = smp.eval([topo.f_index, topo.f_coords, geom])
        except Exception as e:
            yield _fail('f_index:{}:raises-{}'.format(last, type(e).__name__), 'evaluating f_index/f_coords/geom on sample({},{}) raised {!r}'.format(scheme, degree, e))
            return
        xo = pi = pc = None
        if beh['oppphys']:
            try:
                xo = smp.eval(function.opposite(geom))
            except Exception as e:
                yield _fail('interfaces:opposite:raises-{}'.format(type(e).__name__), 'evaluating opposite(geom) raised {!r}'.format(e))
                return
        if beh['cross'] and parent is not None:
            try:
                pi, pc = smp.eval([parent.f_index, parent.f_coords])
            except Exception as e:
                yield _fail('cross:{}:raises-{}'.format(last, type(e).__name__), 'evaluating the parent topology index/coords on the {} sample raised {!r}'.format(last, e))
                return
        for i in range(len(den)):
            pts = element_points(smp, i)
            sel = smp.getindex(i)
            if not (numpy.asarray(index)[sel] == i).all():
                yield _fail('f_index:{}'.format(last), 'f_index evaluates to {} on element {}'.format(numpy.asarray(index)[sel].tolist(), i))
                return
            if pts.size and abs(numpy.asarray(coords)[sel] - pts).max() > TOL:
                yield _fail('f_coords:{}'.format(last), 'f_coords differs from the sample points on element {}'.format(i))
                return
            want = ci.apply_model_map(beh['phys'][i], pts)
            if abs(numpy.asarray(x)[sel] - want).max(initial=0) > TOL:
                yield _fail('geom:{}'.format(last), 'the geometry on element {} is {}, the model predicts root coordinates {}'.format(i, numpy.asarray(x)[sel].tolist(), want.tolist()))
                return
            if xo is not None:
                wanto = ci.apply_model_map(beh['oppphys'][i], pts)
                if abs(numpy.asarray(xo)[sel] - wanto).max(initial=0) > TOL:
                    yield _fail('interfaces:opposite-geom', 'opposite(geom) on interface element {} is {}, the model predicts {}'.format(i, numpy.asarray(xo)[sel].tolist(), wanto.tolist()))
                    return
            if pi is not None:
                c = beh['cross'][i]
                wantc = ci.apply_model_map(c['map'], pts)
                if not (numpy.asarray(pi)[sel] == c['i']).all() or abs(numpy.asarray(pc)[sel] - wantc).max(initial=0) > TOL:
                    yield _fail('cross:{}:f_index-f_coords'.format(last), 'parent f_index/f_coords on element {}: index {} coords {}, the model predicts index {} coords {}'.format(
                        i, numpy.asarray(pi)[sel].tolist(), numpy.asarray(pc)[sel].tolist(), c['i'], wantc.tolist()))
                    return
