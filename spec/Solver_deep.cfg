\* deeper oracle sequences for the two methods with inner loops (ReuseNewton reject branch, line search failure)
SPECIFICATION Spec
CONSTANTS
  Methods = {"reuse", "linesearch"}
  Vals = {1, 2, 4, 1000}
  Tols = {1}
  MinIters = {0}
  MaxIters = {3, 99}
  LModes = {"rel"}
  MaxDraw = 7
  Variants = {TRUE, FALSE}
  Emitting = TRUE
INVARIANT TypeOK
INVARIANT Certified
INVARIANT NoSilent
INVARIANT IterBounds
INVARIANT ReturnsLast
INVARIANT EmitTerminal
CHECK_DEADLOCK FALSE
