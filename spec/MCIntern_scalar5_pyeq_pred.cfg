SPECIFICATION Spec
CONSTANTS
  Args <- ScalarArgs
  CanonOf <- ScalarCanonAll
  PyOf <- ScalarPy
  KeyMode = "pyeq"
  MaxOps = 5
  MaxPickles = 1
  Label = "scalar"
CONSTRAINT EmitBehaviour
CHECK_DEADLOCK FALSE
