CONSTANTS
  BaseOrd <- MCBaseOrd3
  ExpSet <- ExpQuick
CHECK_DEADLOCK FALSE
