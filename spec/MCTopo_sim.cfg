\* simulation (-simulate): random histories of up to MaxOps operations on larger bases
SPECIFICATION Spec
CONSTANTS
  Bases <- Bases_sim
  MaxOps = 3
  MaxSub = 1
  NPat = 3
  OpSet <- Ops_all
  TrimRef <- Ref_012
  Mutant = "none"
INVARIANT TypeOK
INVARIANT Disjoint
INVARIANT WithinHull
INVARIANT BoundaryClosed
INVARIANT InterfacesOnce
INVARIANT FacetPartition
INVARIANT CutShared
INVARIANT EmitState
CHECK_DEADLOCK FALSE
