---- MODULE MCHash ----
EXTENDS Hash
NoExtra == [x \in {} |-> 0]
====
