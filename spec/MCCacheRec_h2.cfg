SPECIFICATION Spec
CONSTANTS
  Procs = {p1}
  N = 3
  H = 2
  PLen = 2
  MaxCrash = 2
  MaxRuns = 4
  MaxCorrupt = 2
  CanRaise = TRUE
INVARIANT Transparent
INVARIANT Complete
INVARIANT StoredIsTrue
INVARIANT MutexItem
INVARIANT LockHeld
INVARIANT GenGood
INVARIANT InRange
CHECK_DEADLOCK FALSE
