\* quick, exhaustive: every nesting of at most 2 operations on the leaves
SPECIFICATION Spec
CONSTANTS
  Bases <- MCBases
  AtomDefs <- MCAtomDefs
  StartAtoms <- MCStartAtoms
  Operands <- MCOperands
  MaxOps = 2
  MaxPoints = 24
  MaxElems = 12
  TakeAll = TRUE
  Mutant = "none"
INVARIANT ContainerInv
INVARIANT LocatedInv
INVARIANT Sizes
INVARIANT IndexPartition
INVARIANT EvalOrder
INVARIANT EvIndexAgrees
INVARIANT Quadrature
INVARIANT OpLaw
INVARIANT EmitAll
CHECK_DEADLOCK FALSE
