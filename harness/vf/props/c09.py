"""C09 -- Integration is exact quadrature of point evaluation.

Deciding method: model-based verification with TLA+ specifications checked by TLC.

Design specs (spec/):
  SampleAlg.tla      the sample algebra of sample.py: one record per nutils object (_DefaultIndex, _CustomIndex, _Empty,
                     _Add, _Mul, _TakeElements, _Zip), each carrying what its class computes (nelems, npoints, getindex,
                     get_evaluable_indices, get_lower_args / get_evaluable_weights) next to its denotation (elements,
                     points, weights); Bind (= _bind), IntBag (= _integral) and the public operations with their class
                     dispatch on top.  Machine: one nesting of operations per state.  Invariants: Sizes, IndexPartition,
                     EvalOrder, EvIndexAgrees, Quadrature, OpLaw; Total (every sample can be evaluated) is violated and
                     yields the shortest nesting on which _Add's missing element-wise access surfaces.
  GaussOracle.tla    the reference elements getpoints is called on (simplices, tensor products, subsets of children,
                     half-space trims), the region each denotes as signed dyadic affine images of references, and the
                     exact integrals of all monomials over it; invariants ChildrenTile, TrimSplits, RegionInside,
                     RefVolume.
Bindings to the code:
  (T)    the structure of the live base samples (points per element, the PointsSequence container expression that built
         them, located samples) is exported and is the model's constant table (MCSampleAlg.tla); the invariants ContainerInv
         (model of pointsseq.py's chain / repeat / take / product) and LocatedInv (transcription of Topology._sample) state
         that the model predicts the exported structure.
         MCGaussOracle.tla, invariant Decomposition: the decomposition of every live reference (child transforms, mosaic
         simplices) is exported and TLC decides that it tiles exactly the region the model assigns to the configuration.
  (S->C) every SampleAlg state is rebuilt from the real base samples through +, *, take_elements, subset, zip and
         compared with the model: nelems, npoints, getindex, eval of element index and coordinates of every space row by
         row, integrate against the sum over the model's points of (referenced weights) x value (c09_sample.py);
         every GaussOracle configuration is built with the element API and its Gauss / uniform / bezier rules are compared
         with the model's exact monomial integrals, region membership and volume (c09_gauss.py).
Spec mutants (wrong strides in _Mul.getindex, missing offset in _Add.getindex, take_elements that does not compose, zip
without weights, unsorted take_elements, wrong child map, wrong simplex integral) must violate the invariants.
"""

import collections
import concurrent.futures
import json
import os
import random

from .. import tlc, exprs
from . import c09_sample as cs, c09_gauss as cg

LEVEL = 'model_checking'

SAMPLE_ACTIONS = ['ATake', 'ASubset', 'AAdd', 'AMul', 'AZip']
GAUSS_ACTIONS = ['WithChildren', 'Trim']
TABLE_INVARIANTS = dict(
    ContainerInv='the number of points per element of a live PointsSequence (chain / repeat / take / product of point sets) differs from the container model',
    LocatedInv='the structure of a live located sample (Topology._sample) differs from the grouping the model predicts')
ACTION_OP = dict(ATake='take', ASubset='subset', AAdd='add', AMul='mul', AZip='zip', WithChildren='children', Trim='trim')
SAMPLE_MUTANTS = {'mul-index-strides': 'EvalOrder', 'add-no-offset': 'IndexPartition', 'take-no-compose': 'OpLaw',
                  'zip-no-weights': 'Quadrature', 'take-unsorted': 'OpLaw'}
GAUSS_MUTANTS = {'child-map': 'ChildrenTile', 'simplex-moment': 'RefVolume'}

# leaves per run: name -> (start atoms, operands)
ALL = ['A', 'C', 'B', 'G', 'D', 'H', 'U', 'W', 'L', 'M', 'R', 'T', 'V', 'P', 'Q', 'AC', 'BG', 'Ac', 'Bc', 'EX', 'EY']
LEAVES = {
    'quick': (['A', 'B', 'T', 'L', 'P', 'Q', 'AC', 'EX'], ['C', 'B', 'D', 'W', 'AC', 'EX']),
    'thorough2': (ALL, ['A', 'C', 'B', 'D', 'W', 'L', 'T', 'Q', 'AC', 'EX']),
    'thorough3': (['A', 'B', 'L', 'AC'], ['C', 'B', 'D', 'AC']),
    'sim': (ALL, ALL),
    'total': (['A'], ['C', 'B']),
    'mutant': (['A', 'B', 'Ac'], ['A', 'C', 'B', 'G', 'D']),
}


def _cfg_with(name, **subst):
    text = open(os.path.join(tlc.SPEC, name)).read()
    for k, v in subst.items():
        lines = []
        for line in text.splitlines():
            if line.strip().startswith(k + ' ='):
                line = '  {} = {}'.format(k, v)
            lines.append(line)
        text = '\n'.join(lines) + '\n'
    return text


def plan(tier, seed, tables):
    """TLC design runs: name -> (module, kwargs, exhaustive)"""
    jobs = collections.OrderedDict()
    env = lambda which: dict(VF_TABLE=tables[which])
    if tier == 'quick':
        jobs['sample'] = ('MCSampleAlg', dict(cfg='MCSampleAlg.cfg', env=env('quick'), workers=4), True)
        jobs['gauss'] = ('MCGaussOracle', dict(cfg='MCGaussOracle.cfg', env=env('gauss'), workers=4), True)
        # one spec mutant per run (all of them in the thorough tier)
        muts = sorted(SAMPLE_MUTANTS) + sorted(GAUSS_MUTANTS)
        muts = [muts[seed % len(muts)]]
    else:
        jobs['gauss'] = ('MCGaussOracle', dict(cfg='MCGaussOracle_thorough.cfg', env=env('gauss'), workers=4, timeout=2400), True)
        jobs['sample'] = ('MCSampleAlg', dict(cfg='MCSampleAlg.cfg', env=env('thorough2'), workers=4, timeout=2400), True)
        jobs['sample-3'] = ('MCSampleAlg', dict(cfg='MCSampleAlg_thorough.cfg', env=env('thorough3'), workers=4, timeout=2400), True)
        jobs['sample-sim'] = ('MCSampleAlg', dict(cfg='MCSampleAlg_sim.cfg', env=env('sim'), simulate=dict(num=100), depth=6, seed=seed, workers=2, timeout=900), False)
        jobs['sample-total'] = ('MCSampleAlg', dict(cfg='MCSampleAlg_total.cfg', env=env('total'), workers=1), True)
        # TLC's own coverage statistics (expensive) on the small configurations
        jobs['sample-cov'] = ('MCSampleAlg', dict(cfg='MCSampleAlg.cfg', env=env('quick'), coverage=True, workers=4, timeout=2400), True)
        jobs['gauss-cov'] = ('MCGaussOracle', dict(cfg='MCGaussOracle_small.cfg', env=env('nogauss'), coverage=True, workers=2), True)
        muts = sorted(SAMPLE_MUTANTS) + sorted(GAUSS_MUTANTS)
    for m in muts:
        if m in SAMPLE_MUTANTS:
            jobs['sample-mutant-' + m] = ('MCSampleAlg', dict(cfg_text=_cfg_with('MCSampleAlg_mutant.cfg', Mutant='"{}"'.format(m)), env=env('mutant'), workers=1), True)
        else:
            jobs['gauss-mutant-' + m] = ('MCGaussOracle', dict(cfg_text=_cfg_with('MCGaussOracle_mutant.cfg', GoMutant='"{}"'.format(m)), env=env('nogauss'), workers=1), True)
    return jobs


def _run_job(item):
    name, (module, kw, exhaustive) = item
    kw = dict(kw)
    kw.setdefault('deadlock', False)
    return name, tlc.run(module, tag='c09-' + name, **kw)


def _gauss_entry(entry):
    return cg.check_entry(entry)


def _export_row(cfg):
    return cg.export_row(cfg)


def run(rep):
    quick = rep.tier == 'quick'
    rng = random.Random(rep.seed)
    # ---- T: the real leaves and the tables exported from them
    world = cs.build_world()
    wd = os.path.join(tlc.WORK, 'c09-tables')
    os.makedirs(wd, exist_ok=True)
    tables = {}
    for which, (start, operands) in LEAVES.items():
        tables[which] = os.path.join(wd, 'sample-{}.json'.format(which))
        with open(tables[which], 'w') as f:
            json.dump(cs.table(world, start, operands), f)
    gcfg = 'MCGaussOracle.cfg' if quick else 'MCGaussOracle_thorough.cfg'
    cfgs = cg.enumerate_cfgs(cg.cfg_constants(open(os.path.join(tlc.SPEC, gcfg)).read()))
    gtable = exprs.pmap(_export_row, cfgs, nproc=4, chunksize=8)
    for row in gtable:
        if 'harness_error' in row:
            raise RuntimeError(row['harness_error'])
    tables['gauss'] = os.path.join(wd, 'gauss-table.json')
    with open(tables['gauss'], 'w') as f:
        json.dump([dict(cfg=r['cfg'], pieces=r['pieces'], skip=r['skip']) for r in gtable], f)
    tables['nogauss'] = os.path.join(wd, 'gauss-none.json')
    with open(tables['nogauss'], 'w') as f:
        json.dump([], f)
    rep.lap('tables')
    rep.constants['SampleAlg'] = ('leaves: synthetic base samples with integer coordinates and weights in three spaces (1D, 1D, 2D), sums of two of them, PointsSequence containers (chain, repeat, take, product), '
                                  'custom index, located samples with weights, gauss samples of a structured and of two trimmed topologies, empty samples; '
                                  '{}').format('<= 2 operations exhaustively on 8 leaves' if quick else
                                               '<= 2 operations exhaustively on 21 leaves, <= 3 operations on 4 leaves, simulation to 4 operations')
    rep.constants['GaussOracle'] = ('references line, triangle, tetrahedron, square, prisms, cube; subsets of children; half-space trims {}; '
                                    'monomials up to degree {} (documented maxima: triangle 7, tetrahedron 8), children/trims up to degree {}').format(
        *(('at 1/2 of line, triangle, square (maxrefine 0, 1)', 9, '4 (3 in 3D)') if quick else ('at 1/4, 1/2, 3/4 in all dimensions (maxrefine 0, 1)', 14, '7 (5 in 3D)')))

    jobs = plan(rep.tier, rep.seed, tables)
    # the machine is shared: at most four TLC processes at a time
    with concurrent.futures.ThreadPoolExecutor(max_workers=min(4, len(jobs))) as pool:
        futures = [pool.submit(_run_job, item) for item in jobs.items()]
        results = dict(f.result() for f in futures)
    rep.lap('tlc design runs')

    # ---- design-level verdicts
    table_violations = []
    for name, res in results.items():
        if res.violated in TABLE_INVARIANTS:
            # T binding: the structure exported from the live samples is not the one the model predicts
            table_violations.append((name, res.violated))
            continue
        if 'mutant' in name:
            m = name.split('mutant-')[1]
            want = SAMPLE_MUTANTS.get(m) or GAUSS_MUTANTS[m]
            if res.violated != want:
                raise RuntimeError('spec mutant {} does not violate {} (violated={}): the invariant is vacuous'.format(name, want, res.violated))
            rep.extra.setdefault('spec_mutants_killed', []).append(m)
            continue
        if name == 'sample-total':
            continue
        rep.add_tlc(res, exhaustive=jobs[name][2])
        if res.violated or res.postcondition_failed:
            raise RuntimeError('design spec {} violates {}:\n{}'.format(name, res.violated or 'an assumption', '\n'.join(res.error_trace[:60]) or res.stdout[-2000:]))
    if table_violations:
        tab = cs.table(world, *LEAVES['sim'])
        for name, inv in table_violations:
            rep.violation('table:' + inv, TABLE_INVARIANTS[inv], dict(run=name, bases=[dict(sp=b['sp'], np=b['np'], items=b['items'], ps=b['ps']) for b in tab['bases']]))
        return
    # vacuity guard: every action of both machines was taken.  The thorough tier reads TLC's own coverage statistics; the
    # quick tier counts the states each action produced (every emitted state names the operation that created it)
    for name, actions in (('sample', SAMPLE_ACTIONS), ('gauss', GAUSS_ACTIONS)):
        last = collections.Counter((e['ops']['o'] if 'ops' in e else e['cfg']['op']) for e in results[name].emitted if 'ops' in e or 'moments' in e)
        cov = {a: (last[ACTION_OP[a]], last[ACTION_OP[a]]) for a in actions}
        if quick:
            for a in actions:
                rep.actions[a] = rep.actions.get(a, 0) + cov[a][1]
        missing = [a for a in actions if cov.get(a, (0, 0))[1] == 0]
        if not quick:
            tcov = results[name + '-cov'].coverage
            missing += [a for a in actions if tcov.get(a, (0, 0))[1] == 0]
        if missing:
            raise RuntimeError('{}: actions never taken: {}'.format(name, missing))

    # ---- the design-level finding: TLC's shortest nesting that cannot be evaluated (Total)
    total_key = None
    if 'sample-total' in results:
        total = results['sample-total']
        if total.violated != 'Total':
            raise RuntimeError('sample-total: expected the invariant Total to be violated (the model has no element-wise access for _Add), got {}:\n{}'.format(
                total.violated, '\n'.join(total.error_trace[:40])))
        total_beh = [e for e in total.emitted if 'ops' in e][-1]
        total_key = cs.ops_key(total_beh['ops'])
        rep.extra['Total_counterexample'] = cs.ops_str(total_beh['ops'])
        rep.add_tlc(total, exhaustive=True)

    # ---- S->C: sample nestings
    tabs = next(e for e in results['sample'].emitted if 'atomtable' in e)
    cs.set_tables(world, tabs['atomtable'], tabs['basetable'])
    rep.extra['base_samples'] = [dict(space=b['sp'], kind=b['how'], points_per_element=[len(c) for c in b['coords']]) for b in world.bases]
    states, seen = [], set()
    opcount = collections.Counter()
    for name, res in results.items():
        if name.startswith('sample') and 'mutant' not in name:
            for b in res.emitted:
                if 'ops' not in b:
                    continue
                k = cs.ops_key(b['ops'])
                if k not in seen:
                    seen.add(k)
                    states.append(b)
    for b in states:
        opcount[b['ops']['o']] += 1
    missing = [op for op in ('take', 'subset', 'add', 'mul', 'zip') if not opcount[op]]
    if missing:
        raise RuntimeError('SampleAlg: operations never emitted: {}'.format(missing))
    unsupported = [b for b in states if not (b['canbind'] and b['canint'])]
    if not unsupported:
        raise RuntimeError('SampleAlg: no nesting without element-wise access was generated')
    rep.extra['nestings_without_elementwise_access'] = len(unsupported)
    rep.extra['shortest_nesting_without_elementwise_access'] = cs.ops_str(min(unsupported, key=lambda b: (b['nops'], len(cs.ops_str(b['ops']))))['ops'])
    # all nestings of at most one operation, the counterexample of Total, and a seeded selection of the deeper ones
    budget = 260 if quick else 2500
    first = lambda b: b['nops'] <= 1 or cs.ops_key(b['ops']) == total_key
    shallow = [b for b in states if first(b)]
    deep = sorted((b for b in states if not first(b)), key=lambda b: cs.ops_key(b['ops']))     # TLC's emission order is not deterministic
    rng.shuffle(deep)
    # at least a few of the nestings the code cannot evaluate (deterministic known-finding lines)
    deep.sort(key=lambda b: b['canbind'] and b['canint'])
    nuns = sum(1 for b in deep if not (b['canbind'] and b['canint']))
    deep = deep[:min(nuns, 12)] + deep[nuns:][:max(0, budget - len(shallow))]
    chosen = {cs.ops_key(b['ops']) for b in shallow + deep}
    # every sub-nesting of a chosen nesting is replayed too (root-cause attribution needs them)
    bykey = {cs.ops_key(b['ops']): b for b in states}
    for b in list(deep):
        for u in cs.subops(b['ops']):
            k = cs.ops_key(u)
            if k in bykey and k not in chosen:
                chosen.add(k)
                deep.append(bykey[k])
    todo = sorted(shallow + deep, key=lambda b: b['nops'])
    outs = exprs.pmap(cs.replay, todo, nproc=4, chunksize=8)
    failed = {}
    structure_diverged = 0
    for beh, out in zip(todo, outs):
        if 'harness_error' in out:
            raise RuntimeError(out['harness_error'])
        key = cs.ops_key(beh['ops'])
        rep.case(('sample', key), nontrivial=beh['nops'] >= 2)
        structure_diverged += out['structure_same'] is False
        if out['fails']:
            inherited = [failed[cs.ops_key(u)] for u in cs.subops(beh['ops']) if cs.ops_key(u) in failed]
            fails = inherited[0] if inherited else out['fails']
            for f in fails:
                rep.violation(*f)
            failed[key] = fails
        else:
            rep.traces += 1
    rep.extra['nestings_generated'] = len(states)
    rep.extra['nestings_replayed'] = len(todo)
    rep.extra['nestings_by_last_operation'] = dict(opcount)
    rep.extra['class_structure_differs_from_model'] = structure_diverged
    for b in todo[-2:]:
        rep.sample(dict(nesting=cs.ops_str(b['ops']), nelems=b['nelems'], npoints=b['npoints'], index=b['index']))
    rep.lap('sample replay')

    # ---- S->C: gauss rules against the oracle;  T: verdicts on the exported decompositions
    gres = results['gauss']
    entries = [e for e in gres.emitted if 'moments' in e]
    verdicts = {cg.cfg_key(e['tab']): e['v'] for e in gres.emitted if 'tab' in e}
    want = {cg.cfg_key(c) for c in cfgs}
    if {cg.cfg_key(e['cfg']) for e in entries} != want or set(verdicts) != want:
        raise RuntimeError('GaussOracle: the configurations TLC visited are not the ones the harness exported ({} vs {})'.format(len(entries), len(want)))
    outs = exprs.pmap(_gauss_entry, entries, nproc=4, chunksize=4)
    rules = moments = 0
    for e, out in zip(entries, outs):
        if 'harness_error' in out:
            raise RuntimeError(out['harness_error'])
        rep.case(('gauss', cg.cfg_key(e['cfg'])), nontrivial=e['cfg']['op'] != 'ref')
        rules += out['rules']
        moments += out['moments']
        if out['skipped']:
            rep.skip('gauss configuration: ' + out['skipped'])
            continue
        if out['fails']:
            for f in out['fails']:
                rep.violation(*f)
        else:
            rep.traces += 1
    rep.extra['gauss_configurations'] = len(entries)
    rep.extra['quadrature_rules_checked'] = rules
    rep.extra['monomial_integrals_compared'] = moments
    if entries:
        e = entries[len(entries) // 2]
        rep.sample(dict(reference=cg.cfg_str(e['cfg']), degree=e['deg'], pieces=len(e['pieces'])))
    decided = 0
    for row in gtable:
        v = verdicts[cg.cfg_key(row['cfg'])]
        if v == 'no-row':
            raise RuntimeError('GaussOracle: no table row for {}'.format(row['cfg']))
        if v == 'skipped':
            rep.skip('gauss table: ' + row['skip'])
            continue
        decided += 1
        rep.case(('gauss-table', cg.cfg_key(row['cfg'])), nontrivial=True)
        if v == 'ok':
            rep.traces += 1
        else:
            rep.violation('decomposition:{}:{}'.format(v, row['kind']), '{}: the pieces of the real reference ({}) do not tile the region of the configuration: {}'.format(
                cg.cfg_str(row['cfg']), row['kind'], v), dict(cfg=row['cfg'], pieces=row['pieces']))
    rep.extra['decompositions_decided_by_TLC'] = decided
    rep.lap('gauss rules and table')

    rep.rule = ('cases = nestings of sample operations (non-trivial: at least two operations), reference configurations (non-trivial: '
                'children subsets and trims) and exported decompositions')
    rep.assumptions += [
        'take_elements is judged for strictly increasing index lists only (the order Topology.take produces); the spec mutant take-unsorted shows that '
        '_Add.take_elements reorders other lists',
        'within an element of a zipped sample the order of the points is unspecified (numpy.argsort is not stable): getindex is compared as a set there',
        'rename_spaces, tri and hull are outside the property',
        '"degree at most p" is read as total degree for every element type (tensor elements are exact per axis, which is stronger)',
        'quadrature is compared numerically (absolute 2e-13) with the exact rational integrals of the model; the documented maxima are 7 (triangle) and 8 (tetrahedron)',
        'trims are half spaces at dyadic thresholds aligned with a coordinate, a simplex diagonal or the square diagonal; general level sets are not decided',
        'the class structure the model predicts for a nesting is compared but not judged (implementation detail)',
    ]
