------------------------------ MODULE CacheRec ------------------------------
(***************************************************************************)
(* Design specification of nutils.cache.Recursion.__iter__                 *)
(* (src/nutils/cache.py lines 333-394): a directory with one file per      *)
(* item, several iterating processes, consumers that stop early, crashes   *)
(* at any step (in particular between two bytes of pickle.dump) and        *)
(* corruption of stored items.                                             *)
(*                                                                         *)
(* The recursion x_i = G(x_{i-1},..,x_{i-H}) is uninterpreted: a value is  *)
(* <<i, good>> where good says that it was computed by a generator that    *)
(* was resumed with the correct history (the last min(H,i) true items).    *)
(* The true sequence has N items, after which resume raises StopIteration  *)
(* (stored as the value "stop").                                           *)
(***************************************************************************)
EXTENDS Naturals, Sequences, FiniteSets, TLC

CONSTANTS Procs, N, H, PLen, MaxCrash, MaxRuns, MaxCorrupt, CanRaise

VARIABLES file,      \* [0..N -> Seq(token)]  token = <<value, byteno>>
          lockedBy,  \* [0..N -> Procs \cup {None}]
          pc, idx, hist, exhausted, gen, cur, nbytes, pos,
          yielded,   \* [Procs -> Seq(value)] items handed to the consumer in the current run
          finished,  \* [Procs -> BOOLEAN] current run ended with StopIteration
          crashes, runs, corrupts

vars == <<file, lockedBy, pc, idx, hist, exhausted, gen, cur, nbytes, pos, yielded, finished, crashes, runs, corrupts>>

None == 0
Stop == <<999, TRUE>>       \* the stored StopIteration marker (stop=True, value=None)
Val(i, g) == <<i, g>>
TrueVal(i) == Val(i, TRUE)
Items == 0..N
Garbage == <<<<998, FALSE>>, 99>>   \* a byte that belongs to no pickle

Good(v) == [b \in 1..PLen |-> <<v, b>>]
IsComplete(c) == Len(c) >= PLen /\ \A b \in 1..PLen : c[b][2] = b /\ c[b][1] = c[1][1]
IsPrefix(c) == Len(c) < PLen /\ \A b \in 1..Len(c) : c[b][2] = b /\ c[b][1] = c[1][1]
Load(c) == IF IsComplete(c) THEN "ok" ELSE IF Len(c) = 0 THEN "eof" ELSE "fail"
Decode(c) == c[1][1]
Overwrite(c, p, b) == IF p + 1 <= Len(c) THEN [c EXCEPT ![p + 1] = b] ELSE Append(c, b)

\* the history a correct resumption at item i must be given
TrueHist(i) == [k \in 1..(IF i < H THEN i ELSE H) |-> TrueVal(i - (IF i < H THEN i ELSE H) + k - 1)]
Trim(h) == IF Len(h) > H THEN SubSeq(h, 2, Len(h)) ELSE h

Init == /\ file = [i \in Items |-> <<>>]
        /\ lockedBy = [i \in Items |-> None]
        /\ pc = [p \in Procs |-> "idle"]
        /\ idx = [p \in Procs |-> 0]
        /\ hist = [p \in Procs |-> <<>>]
        /\ exhausted = [p \in Procs |-> FALSE]
        /\ gen = [p \in Procs |-> <<0, TRUE>>]
        /\ cur = [p \in Procs |-> Stop]
        /\ nbytes = [p \in Procs |-> 0]
        /\ pos = [p \in Procs |-> 0]
        /\ yielded = [p \in Procs |-> <<>>]
        /\ finished = [p \in Procs |-> FALSE]
        /\ crashes = 0 /\ runs = 0 /\ corrupts = 0

Start(p) == /\ pc[p] = "idle" /\ runs < MaxRuns
            /\ runs' = runs + 1
            /\ pc' = [pc EXCEPT ![p] = "item"]
            /\ idx' = [idx EXCEPT ![p] = 0]
            /\ hist' = [hist EXCEPT ![p] = <<>>]
            /\ exhausted' = [exhausted EXCEPT ![p] = FALSE]
            /\ yielded' = [yielded EXCEPT ![p] = <<>>]
            /\ finished' = [finished EXCEPT ![p] = FALSE]
            /\ UNCHANGED <<file, lockedBy, gen, cur, nbytes, pos, crashes, corrupts>>

\* touch + open of item file idx[p]
Open(p) == /\ pc[p] = "item" /\ idx[p] \in Items
           /\ pc' = [pc EXCEPT ![p] = "opened"]
           /\ pos' = [pos EXCEPT ![p] = 0]
           /\ UNCHANGED <<file, lockedBy, idx, hist, exhausted, gen, cur, nbytes, yielded, finished, crashes, runs, corrupts>>

Lock(p) == /\ pc[p] = "opened" /\ lockedBy[idx[p]] = None
           /\ lockedBy' = [lockedBy EXCEPT ![idx[p]] = p]
           /\ pc' = [pc EXCEPT ![p] = IF exhausted[p] THEN "compute" ELSE "locked"]
           /\ UNCHANGED <<file, idx, hist, exhausted, gen, cur, nbytes, pos, yielded, finished, crashes, runs, corrupts>>

LoadOk(p) == /\ pc[p] = "locked" /\ Load(file[idx[p]]) = "ok"
             /\ LET v == Decode(file[idx[p]]) IN
                  /\ cur' = [cur EXCEPT ![p] = v]
                  /\ hist' = [hist EXCEPT ![p] = Trim(Append(hist[p], v))]
             /\ pc' = [pc EXCEPT ![p] = "close"]
             /\ UNCHANGED <<file, lockedBy, idx, exhausted, gen, nbytes, pos, yielded, finished, crashes, runs, corrupts>>

\* EOFError ("cache exhausted") or UnpicklingError/IndexError ("failed to load"):
\* resume from the history read so far, seek(0)
LoadFail(p) == /\ pc[p] = "locked" /\ Load(file[idx[p]]) # "ok"
               /\ exhausted' = [exhausted EXCEPT ![p] = TRUE]
               /\ gen' = [gen EXCEPT ![p] = <<idx[p], hist[p] = TrueHist(idx[p])>>]
               /\ hist' = [hist EXCEPT ![p] = <<>>]
               /\ pos' = [pos EXCEPT ![p] = 0]
               /\ pc' = [pc EXCEPT ![p] = "compute"]
               /\ UNCHANGED <<file, lockedBy, idx, cur, nbytes, yielded, finished, crashes, runs, corrupts>>

\* next(resume): next item of the generator, or StopIteration after N items
Compute(p) == /\ pc[p] = "compute"
              /\ cur' = [cur EXCEPT ![p] = IF gen[p][1] >= N THEN Stop ELSE Val(gen[p][1], gen[p][2])]
              /\ gen' = [gen EXCEPT ![p] = <<gen[p][1] + 1, gen[p][2]>>]
              /\ nbytes' = [nbytes EXCEPT ![p] = 0]
              /\ pc' = [pc EXCEPT ![p] = "dump"]
              /\ UNCHANGED <<file, lockedBy, idx, hist, exhausted, pos, yielded, finished, crashes, runs, corrupts>>

\* resume raises something else than StopIteration: propagates, nothing is written
ComputeRaise(p) == /\ pc[p] = "compute" /\ CanRaise
                   /\ lockedBy' = [lockedBy EXCEPT ![idx[p]] = None]
                   /\ pc' = [pc EXCEPT ![p] = "idle"]
                   /\ UNCHANGED <<file, idx, hist, exhausted, gen, cur, nbytes, pos, yielded, finished, crashes, runs, corrupts>>

DumpByte(p) == /\ pc[p] = "dump" /\ nbytes[p] < PLen
               /\ file' = [file EXCEPT ![idx[p]] = Overwrite(@, pos[p], <<cur[p], nbytes[p] + 1>>)]
               /\ pos' = [pos EXCEPT ![p] = pos[p] + 1]
               /\ nbytes' = [nbytes EXCEPT ![p] = nbytes[p] + 1]
               /\ pc' = [pc EXCEPT ![p] = IF nbytes[p] + 1 = PLen THEN "close" ELSE "dump"]
               /\ UNCHANGED <<lockedBy, idx, hist, exhausted, gen, cur, yielded, finished, crashes, runs, corrupts>>

\* leave the with block; then either return (stop) or yield the value
Close(p) == /\ pc[p] = "close"
            /\ lockedBy' = [lockedBy EXCEPT ![idx[p]] = None]
            /\ IF cur[p] = Stop
               THEN /\ finished' = [finished EXCEPT ![p] = TRUE]
                    /\ pc' = [pc EXCEPT ![p] = "idle"]
                    /\ UNCHANGED yielded
               ELSE /\ yielded' = [yielded EXCEPT ![p] = Append(@, cur[p])]
                    /\ pc' = [pc EXCEPT ![p] = "yield"]
                    /\ UNCHANGED finished
            /\ UNCHANGED <<file, idx, hist, exhausted, gen, cur, nbytes, pos, crashes, runs, corrupts>>

\* consumer asks for the next item
NextItem(p) == /\ pc[p] = "yield"
               /\ idx' = [idx EXCEPT ![p] = idx[p] + 1]
               /\ pc' = [pc EXCEPT ![p] = "item"]
               /\ UNCHANGED <<file, lockedBy, hist, exhausted, gen, cur, nbytes, pos, yielded, finished, crashes, runs, corrupts>>

\* consumer drops the iterator (break out of the for loop)
ConsumerStop(p) == /\ pc[p] = "yield"
                   /\ pc' = [pc EXCEPT ![p] = "idle"]
                   /\ UNCHANGED <<file, lockedBy, idx, hist, exhausted, gen, cur, nbytes, pos, yielded, finished, crashes, runs, corrupts>>

Crash(p) == /\ pc[p] # "idle" /\ crashes < MaxCrash
            /\ crashes' = crashes + 1
            /\ lockedBy' = [i \in Items |-> IF lockedBy[i] = p THEN None ELSE lockedBy[i]]
            /\ pc' = [pc EXCEPT ![p] = "idle"]
            /\ UNCHANGED <<file, idx, hist, exhausted, gen, cur, nbytes, pos, yielded, finished, runs, corrupts>>

\* bit rot / foreign writer: an unlocked item file is replaced by junk or emptied
Corrupt(i) == /\ corrupts < MaxCorrupt /\ lockedBy[i] = None
              /\ corrupts' = corrupts + 1
              /\ \E c \in {<<>>, <<Garbage>>, [b \in 1..(PLen + 1) |-> Garbage]} : file' = [file EXCEPT ![i] = c]
              /\ UNCHANGED <<lockedBy, pc, idx, hist, exhausted, gen, cur, nbytes, pos, yielded, finished, crashes, runs>>

Step(p) == \/ Start(p) \/ Open(p) \/ Lock(p) \/ LoadOk(p) \/ LoadFail(p) \/ Compute(p) \/ ComputeRaise(p)
           \/ DumpByte(p) \/ Close(p) \/ NextItem(p) \/ ConsumerStop(p)

Next == (\E p \in Procs : Step(p) \/ Crash(p)) \/ (\E i \in Items : Corrupt(i))

Spec == Init /\ [][Next]_vars

\* ------------------------------------------------------------------ properties
\* every item handed to a consumer is the true item at its position
Transparent == \A p \in Procs : \A k \in 1..Len(yielded[p]) : yielded[p][k] = TrueVal(k - 1)
\* a run that ends with StopIteration has yielded the whole sequence
Complete == \A p \in Procs : finished[p] => Len(yielded[p]) = N
\* whatever can be loaded from item file i is the true item i (or the stop marker at N)
StoredIsTrue == \A i \in Items : Load(file[i]) = "ok" => Decode(file[i]) = (IF i = N THEN Stop ELSE TrueVal(i))
\* one process at a time computes/writes a given item
MutexItem == \A i \in Items : Cardinality({p \in Procs : pc[p] \in {"compute", "dump"} /\ idx[p] = i}) <= 1
LockHeld == \A p \in Procs : pc[p] \in {"locked", "compute", "dump", "close"} => lockedBy[idx[p]] = p
\* a resumed generator always got the right history
GenGood == \A p \in Procs : exhausted[p] => gen[p][2] = TRUE
InRange == \A p \in Procs : idx[p] \in Items
=============================================================================
