"""C15 -- Matrix objects are faithful to the data they were assembled from.

Deciding method: the TLA+ design spec MatrixADT (spec/MatrixADT.tla, vocabulary in
spec/MatrixOps.tla) models assemble_csr / assemble_coo / assemble_block_csr /
empty / diag / eye step by step (compress_indices, the three validation tests,
the backend scatter) and the Matrix operations (neg, T, scale, div, add, sub,
submatrix with its cache, pickle through __reduce__ -> assemble_csr).  TLC checks
the property invariants (AcceptIffValid, Faithful, FaithfulInput, CompressCorrect,
BlockFaithful, PickleFaithful, CacheTransparent, StepsFaithful, Algebra) exhaustively
for small bounds and by seeded simulation for longer operation sequences.

Binding to the code:
 (S->C) every complete behaviour of the model (input, accept/reject verdict with the
        declarative reasons, and for every matrix created the predicted denotation
        and the predicted rowsupp / diagonal / A@x / A@X) is emitted by TLC and
        replayed step by step into real nutils matrix objects for every available
        backend; the model's prediction is the oracle.
 (T)    the CSR and COO exports of every real matrix created during the replay are
        written to a table and TLC (spec/MatrixExport.tla) decides whether each export
        satisfies the export contract and denotes the predicted matrix.
A spec mutant that mirrors the pinned implementation (greater_equal, no lower
bound) is run in every tier and must violate AcceptIffValid (non-vacuity).
"""

import concurrent.futures
import json
import math
import os
import pickle

from .. import tlc

LEVEL = 'model_checking'
WORKROOT = os.path.join(tlc.WORK, 'c15')
SENTINEL = 999999937     # "not representable at the predicted exponent": can never match a prediction

ALL_ACTIONS = ['ChooseInput', 'ChoosePattern', 'GenBlock', 'BlockRow', 'BlockFinish', 'Compress', 'CheckRowptr',
               'CheckColidx', 'CheckOrder', 'BackendAssemble', 'Return', 'OpNeg', 'OpT', 'OpScale', 'OpDiv', 'OpAdd',
               'OpSub', 'OpSubmatrix', 'OpPickle']

# light invariant set for simulation runs (the heavy algebraic ones are checked exhaustively)
SIM_INV = ['TypeOK', 'AcceptIffValid', 'BackendGetsValid', 'Faithful', 'BlockFaithful', 'PickleFaithful',
           'CacheTransparent', 'StepsFaithful', 'EmitBehaviours']


def _sim_cfg(name):
    lines = []
    for line in open(os.path.join(tlc.SPEC, name)).read().splitlines():
        if line.startswith('INVARIANT'):
            continue
        lines.append(line)
    lines += ['INVARIANT ' + i for i in SIM_INV]
    return '\n'.join(lines) + '\n'


def plan(tier, seed):
    """list of TLC design runs: (tag, kwargs for tlc.run, exhaustive?)"""
    # action coverage (-coverage costs ~35%) is collected on the small configurations, which together take every action
    bfs = lambda cfg, cov=True, **kw: (cfg, dict(cfg='MCMatrixADT_{}.cfg'.format(cfg), coverage=cov, workers=2, **kw), True)
    sim = lambda cfg, num, depth=80: (cfg, dict(cfg_text=_sim_cfg('MCMatrixADT_{}.cfg'.format(cfg)), simulate=dict(num=num), depth=depth,
                                                seed=seed, workers=4, timeout=840), False)
    if tier == 'quick':
        return [bfs('quick'), bfs('subsub'), sim('sim', 20), sim('block_sim', 10)]
    return [bfs('asm', cov=False), bfs('asm_big', cov=False, timeout=1500, heap='8g'), bfs('ops1'), bfs('ops2', cov=False, timeout=1500, heap='8g'), bfs('subsub_big'), bfs('block'),
            sim('sim', 400), sim('sim_deep', 250, depth=120), sim('block_sim', 250)]


# ---------------------------------------------------------------------------
# conversions between model values (Gaussian integers at a binary exponent) and numpy

def _np():
    import numpy
    return numpy


def to_array(cells, shape, e, cplx):
    numpy = _np()
    a = numpy.zeros(shape, dtype=complex if cplx else float)
    if a.size:
        raw = numpy.array(cells, dtype=float).reshape(tuple(shape) + (2,))
        if not cplx and raw[..., 1].any():
            raise RuntimeError('model produced a complex value in a float behaviour')
        a[...] = (raw[..., 0] + 1j * raw[..., 1] if cplx else raw[..., 0]) * 2.0 ** -e
    return a


def vals(v, cplx):
    numpy = _np()
    if cplx:
        return numpy.array([complex(p[0], p[1]) for p in v], dtype=complex)
    if any(p[1] for p in v):
        raise RuntimeError('model produced a complex value in a float behaviour')
    return numpy.array([float(p[0]) for p in v], dtype=float)


def ints(s):
    return _np().array(s, dtype=int)


def same(actual, expected):
    numpy = _np()
    try:
        actual = numpy.asarray(actual)
    except Exception:
        return False
    return actual.shape == expected.shape and actual.dtype.kind in 'biufc' and bool(numpy.array_equal(actual, expected))


def to_pairs(data, e):
    """exported values as integer pairs at exponent e (sentinel if not representable)"""
    out = []
    for v in _np().asarray(data).ravel().tolist():
        c = complex(v) * 2 ** e
        if not (math.isfinite(c.real) and math.isfinite(c.imag)) or c.real != int(c.real) or c.imag != int(c.imag) or abs(c.real) > 1e6 or abs(c.imag) > 1e6:
            out.append([SENTINEL, SENTINEL])
        else:
            out.append([int(c.real), int(c.imag)])
    return out


def to_idx(a):
    numpy = _np()
    a = numpy.asarray(a)
    if a.ndim != 1 or (a.size and a.dtype.kind not in 'iu'):
        raise TypeError('index array of dtype {} and ndim {}'.format(a.dtype, a.ndim))
    return [max(-SENTINEL, min(SENTINEL, int(i))) for i in a.tolist()]


# ---------------------------------------------------------------------------
# replay of one behaviour on one backend

CTOR = dict(csr='assemble_csr', csrwild='assemble_csr', coo='assemble_coo', coowild='assemble_coo', empty='empty', diag='diag', eye='eye',
            block='assemble_block_csr')


def construct(beh, matrix):
    form = beh['form']
    cplx = beh['dt'] == 'c'
    if form in ('csr', 'csrwild'):
        c = beh['csr']
        return matrix.assemble_csr(vals(c['v'], cplx), ints(c['rp']), ints(c['ci']), c['n'])
    if form in ('coo', 'coowild'):
        o = beh['coo']
        return matrix.assemble_coo(vals(o['v'], cplx), ints(o['ri']), o['m'], ints(o['ci']), o['n'])
    if form == 'empty':
        c = beh['csr']
        return matrix.empty((len(c['rp']) - 1, c['n']), complex if cplx else float)
    if form == 'diag':
        return matrix.diag(vals(beh['csr']['v'], cplx))
    if form == 'eye':
        return matrix.eye(beh['csr']['n'])
    if form == 'block':
        return matrix.assemble_block_csr([[(vals(b['v'], cplx), ints(b['rp']), ints(b['ci']), b['n']) for b in row] for row in beh['blk']])
    raise RuntimeError('unknown form ' + form)


def apply_op(step, regs, cplx):
    numpy = _np()
    op = step['op']
    A = regs[step['a']]
    if op == 'neg':
        return -A
    if op == 'T':
        return A.T
    if op == 'scale':
        s = complex(*step['s']) if step['s'][1] else float(step['s'][0])
        return s * A if step['asint'] else A * s
    if op == 'div':
        return A / (2 if step['asint'] else 2.0)
    if op == 'add':
        return A + regs[step['b']]
    if op == 'sub':
        return A - regs[step['b']]
    if op == 'submatrix':
        rows = numpy.array(step['rows'], dtype=bool)
        cols = numpy.array(step['cols'], dtype=bool)
        if step['asint']:
            rows, cols = numpy.flatnonzero(rows), numpy.flatnonzero(cols)
        return A.submatrix(rows, cols)
    if op == 'submatrix_reuse':
        # the caller's persistent boolean mask buffers for this matrix object, overwritten in place before the call
        if len(_MASKBUFS) > 4000:
            _MASKBUFS.clear()
        ent = _MASKBUFS.get(id(A))
        if ent is None or ent[0] is not A:
            ent = _MASKBUFS[id(A)] = (A, numpy.zeros(A.shape[0], dtype=bool), numpy.zeros(A.shape[1], dtype=bool))
        ent[1][...] = step['rows']
        ent[2][...] = step['cols']
        return A.submatrix(ent[1], ent[2])
    if op == 'pickle':
        return pickle.loads(pickle.dumps(A))
    raise RuntimeError('unknown op ' + op)


_MASKBUFS = {}


def exc_key(bname, opname, e, matrix):
    if bname == 'numpy' and isinstance(e, ValueError) and 'need at least one array to concatenate' in str(e):
        return 'numpy.assemble:zero-rows'       # _numpy.assemble: numpy.concatenate([]) for a matrix without rows
    if bname == 'scipy' and opname.startswith('matmul-ndim3') and isinstance(e, ValueError) and 'could not interpret dimensions' in str(e):
        return 'scipy.matmul:ndim3'             # ScipyMatrix.__matmul__ uses core * other, limited to ndim <= 2
    if isinstance(e, matrix.MatrixError) and opname in CTOR.values():
        return '{}:rejects-valid-input'.format(opname)
    return '{}:{}:raises-{}'.format(bname, opname, type(e).__name__)


class Replayer:
    def __init__(self, rep, bname, matrix, table):
        self.rep = rep
        self.bname = bname
        self.matrix = matrix
        self.table = table       # json key -> (entry, context)
        self.steps = 0

    def violation(self, key, what, beh, **data):
        d = dict(backend=self.bname, form=beh['form'], dt=beh['dt'], input=beh.get('csr') or beh.get('coo') or beh.get('blk'),
                 ops=[(s['op'], s['a'], s['b'], s['s'], s['rows'], s['cols']) for s in beh['steps'][1:]])
        d.update(data)
        d['behaviour'] = beh     # complete model behaviour with predictions: ./check C15 --replay <file>
        self.rep.violation(key, what, d)

    def observe(self, beh, opname, step, R):
        """compare every observation of the real object R with the model's prediction; False if the object is wrong"""
        numpy = _np()
        cplx = beh['dt'] == 'c'
        P = step['pred']
        m, n, e = P['m'], P['n'], P['e']
        b = self.bname
        if tuple(R.shape) != (m, n):
            self.violation('{}:{}:wrong-shape'.format(b, opname), 'shape {} instead of {}'.format(tuple(R.shape), (m, n)), beh)
            return False
        exp = to_array(P['c'], (m, n), e, cplx)
        try:
            dense = R.export('dense')
        except Exception as ex:
            self.violation(exc_key(b, 'export-dense', ex, self.matrix), 'export("dense") raised {!r}'.format(ex), beh)
            return False
        if not same(dense, exp):
            self.violation('{}:{}:wrong-dense'.format(b, opname), 'dense export after {} differs from the model'.format(opname), beh,
                           got=numpy.asarray(dense).tolist().__repr__(), expected=exp.tolist().__repr__())
            return False
        x = vals(step['x'], cplx)
        X = to_array(step['xx'], (n, 2), 0, cplx)
        mv = to_array(step['mv'], (m,), e, cplx)
        mm = to_array(step['mm'], (m, 2), e, cplx)
        obs = [('rowsupp', lambda: R.rowsupp(), numpy.array(step['rs0'], dtype=bool).reshape(m)),
               ('rowsupp-tol', lambda: R.rowsupp(tol=1.0), numpy.array(step['rs1'], dtype=bool).reshape(m)),
               ('matvec', lambda: R @ x, mv),
               ('matmul', lambda: R @ X, mm),
               ('matmul-ndim3', lambda: R @ X.reshape(n, 1, 2), mm.reshape(m, 1, 2)),
               ('matmul-ndim3b', lambda: R @ X.reshape(n, 2, 1), mm.reshape(m, 2, 1))]
        if m == n:
            obs.append(('diagonal', lambda: R.diagonal(), to_array(step['diag'], (m,), e, cplx)))
        for name, f, expected in obs:
            try:
                got = f()
            except Exception as ex:
                self.violation(exc_key(b, name, ex, self.matrix), '{} raised {!r} (matrix created by {})'.format(name, ex, opname), beh)
                continue
            if not same(got, expected):
                self.violation('{}:{}:mismatch'.format(b, name.replace('ndim3b', 'ndim3')), '{} differs from the model (matrix created by {})'.format(name, opname), beh,
                               got=repr(numpy.asarray(got).tolist()), expected=repr(expected.tolist()), pred=P)
        # exports go to the table that TLC checks against the export contract
        try:
            data, indices, indptr = R.export('csr')
            cdata, (crow, ccol) = R.export('coo')
            entry = dict(c=P['c'],
                         csr=dict(v=to_pairs(data, e), rp=to_idx(indptr), ci=to_idx(indices), n=n),
                         coo=dict(v=to_pairs(cdata, e), ri=to_idx(crow), m=m, ci=to_idx(ccol), n=n))
        except Exception as ex:
            self.violation(exc_key(b, 'export-sparse', ex, self.matrix), 'export("csr"/"coo") raised or is malformed: {!r} (matrix created by {})'.format(ex, opname), beh)
        else:
            k = json.dumps(entry, sort_keys=True)
            if k not in self.table:
                self.table[k] = (entry, dict(backend=b, op=opname, form=beh['form'], dt=beh['dt'], e=e), beh)
        return True

    def replay(self, beh):
        matrix = self.matrix
        form = beh['form']
        ctor = CTOR[form]
        accepted = beh['verdict'] == 'accepted'
        try:
            M = construct(beh, matrix)
        except Exception as ex:
            if accepted:
                self.violation(exc_key(self.bname, ctor, ex, matrix), '{} raised {!r} on input that defines a matrix unambiguously'.format(ctor, ex), beh)
            return
        if not accepted:
            # silently accepted: one finding per declarative reason the model gives.  The object is
            # not used any further (an out-of-range index is not memory safe in every backend).
            altered = None
            if self.bname == 'numpy':
                try:
                    altered = repr(M.export('dense').tolist())
                except Exception as ex:
                    altered = repr(ex)
            for reason in beh['reasons']:
                root = 'assemble_coo' if reason.startswith(('row-', 'coo-')) else 'assemble_csr'
                self.violation('{}:accepts:{}'.format(root, reason), '{} accepts input that does not define a matrix unambiguously ({}); model rejects at stage {}'.format(
                    ctor, reason, beh['verdict']), beh, numpy_dense=altered)
            return
        regs = {}
        cplx = beh['dt'] == 'c'
        for q, step in enumerate(beh['steps']):
            if q == 0:
                R, opname = M, ctor
            else:
                opname = step['op']
                if step['a'] not in regs or (step['b'] and step['b'] not in regs):
                    return
                try:
                    R = apply_op(step, regs, cplx)
                except Exception as ex:
                    self.violation(exc_key(self.bname, opname, ex, matrix), '{} raised {!r}'.format(opname, ex), beh)
                    return
            self.steps += 1
            if not self.observe(beh, opname, step, R):
                return
            regs[step['r']] = R
        self.rep.traces += 1


def available_backends(rep):
    from nutils import matrix
    numpy = _np()
    out = []
    for name in ('numpy', 'scipy', 'mkl'):
        try:
            with matrix.backend(name):
                try:
                    matrix.assemble_csr(numpy.array([1.]), numpy.array([0, 1]), numpy.array([0]), 1)
                except matrix.BackendNotAvailable:
                    raise
                except Exception:
                    pass   # a broken backend is still a backend under test
            out.append(name)
        except (matrix.BackendNotAvailable, ImportError):
            rep.skip('backend {} not available'.format(name))
    return out


def signature(beh):
    if beh['form'] in ('coo', 'coowild'):
        o = beh['coo']
        shape, nnz, data = (o['m'], o['n']), len(o['v']), (tuple(o['ri']), tuple(o['ci']))
    elif beh['form'] == 'block':
        shape, nnz = tuple(tuple((len(b['rp']) - 1, b['n']) for b in row) for row in beh['blk']), sum(len(b['v']) for row in beh['blk'] for b in row)
        data = tuple(tuple((tuple(b['rp']), tuple(b['ci'])) for b in row) for row in beh['blk'])
    else:
        c = beh['csr']
        shape, nnz, data = (len(c['rp']) - 1, c['n']), len(c['v']), (tuple(c['rp']), tuple(c['ci']))
    ops = tuple((s['op'], s['a'], s['b'], tuple(s['s']), tuple(s['rows']), tuple(s['cols'])) for s in beh['steps'][1:])
    return (beh['form'], beh['dt'], beh['verdict'], tuple(beh['reasons']), shape, data, ops), nnz > 0


def _tlc(module, cfg, **kw):
    """tlc.run with one retry: on a heavily loaded machine a JVM occasionally dies without a verdict"""
    # many small JVMs run side by side: keep each one's GC from spawning one thread per core
    kw['env'] = dict(kw.get('env') or {}, JAVA_TOOL_OPTIONS='-XX:ParallelGCThreads=2')
    try:
        return tlc.run(module, cfg, **kw)
    except tlc.TLCError as e:
        os.makedirs(WORKROOT, exist_ok=True)
        with open(os.path.join(WORKROOT, 'tlc-failure-{}.txt'.format(kw.get('tag', module))), 'w') as f:
            f.write(str(e))
        return tlc.run(module, cfg, **kw)


def run_design(rep):
    """all TLC runs of the design spec (concurrently); returns the list of distinct behaviours"""
    runs = plan(rep.tier, rep.seed)

    def one(item):
        tag, kw, exh = item
        kw = dict(kw)
        cfg = kw.pop('cfg', None)
        return item, _tlc('MCMatrixADT', cfg, tag='c15-{}-{}'.format(rep.tier, tag), deadlock=False, **kw)

    def mutant():
        return _tlc('MCMatrixADT', 'MCMatrixADT_mutant.cfg', tag='c15-{}-mutant'.format(rep.tier), deadlock=False, workers=2, expect_violation=True)

    def cachemutant():
        return _tlc('MCMatrixADT', 'MCMatrixADT_cachemutant.cfg', tag='c15-{}-cachemutant'.format(rep.tier), deadlock=False, workers=2, expect_violation=True)

    behaviours = {}
    with concurrent.futures.ThreadPoolExecutor(max_workers=4 if rep.tier == 'quick' else 5) as pool:
        fm = pool.submit(mutant)
        fc = pool.submit(cachemutant)
        futs = [pool.submit(one, item) for item in runs]
        for fut in futs:
            (tag, kw, exh), res = fut.result()
            if res.violated:
                raise RuntimeError('design spec MatrixADT violates {} under configuration {}:\n{}'.format(res.violated, tag, '\n'.join(res.error_trace[:60])))
            rep.add_tlc(res, exhaustive=True if exh else None)
            rep.extra.setdefault('behaviours_per_config', {})[tag] = len(res.emitted)
            rep.extra.setdefault('tlc_wall_per_config', {})[tag] = round(res.wall, 1)
            if exh and not res.emitted:
                raise RuntimeError('configuration {} emitted no behaviour'.format(tag))
            for beh in res.emitted:
                behaviours.setdefault(json.dumps(beh, sort_keys=True), beh)
        mres = fm.result()
        cres = fc.result()
    if cres.violated != 'StepsFaithful':
        raise RuntimeError('spec mutant CacheCopies=FALSE (submatrix cache keeps the caller\'s mask objects) does not violate StepsFaithful (got {})'.format(cres.violated))
    rep.extra['spec_mutant_cache'] = 'CacheCopies=FALSE: TLC reports StepsFaithful violated after {} states'.format(cres.distinct or cres.generated)
    if mres.violated != 'AcceptIffValid':
        raise RuntimeError('spec mutant (greater_equal / no lower bound) does not violate AcceptIffValid: the invariant is vacuous')
    rep.extra['spec_mutant'] = 'StrictOrder=FALSE, LowerBound=FALSE: TLC reports AcceptIffValid violated after {} states'.format(mres.distinct or mres.generated)
    zero = [a for a in ALL_ACTIONS if rep.actions.get(a, 0) == 0]
    if zero:
        raise RuntimeError('vacuity: actions never taken in any exhaustive configuration: {}'.format(zero))
    # deterministic order, smallest counterexamples first (the first violation of a key is the one recorded)
    rank = dict(csrwild=0, csr=1, coowild=2, coo=3)

    def size(b):
        data = json.dumps(b.get('csr') or b.get('coo') or b.get('blk'))
        return len(b['reasons']), len(b['steps']), rank.get(b['form'], 4), data.count('[0, 0]'), len(data)
    return [behaviours[k] for k in sorted(behaviours, key=lambda k: (size(behaviours[k]), k))]


def check_exports(rep, table):
    """T-binding: TLC decides whether the recorded exports satisfy the export contract"""
    entries = list(table.values())
    if not entries:
        return
    os.makedirs(WORKROOT, exist_ok=True)
    path = os.path.join(WORKROOT, 'exports-{}.json'.format(rep.tier))
    with open(path, 'w') as f:
        json.dump([e[0] for e in entries], f)
    res = _tlc('MatrixExport', 'MatrixExport.cfg', tag='c15-{}-exports'.format(rep.tier), workers=4, env=dict(VF_TABLE=path), deadlock=False, timeout=1500,
                  heap='8g' if rep.tier != 'quick' else '4g')
    if res.violated:
        raise RuntimeError('MatrixExport: unexpected violation ' + res.violated)
    if res.distinct != len(entries) + 1:
        raise RuntimeError('MatrixExport checked {} states for {} table entries'.format(res.distinct, len(entries)))
    if rep.tier != 'replay':
        rep.add_tlc(res)
    rep.extra['export_table_entries'] = len(entries)
    for v in res.emitted:
        entry, ctx, beh = entries[v['id'] - 1]
        for kind in ('csr', 'coo'):
            if not v[kind]:
                rep.violation('{}:export-{}:contract'.format(ctx['backend'], kind),
                              'export("{}") of a matrix created by {} violates the export contract / does not denote the predicted matrix'.format(kind, ctx['op']),
                              dict(backend=ctx['backend'], context=ctx, predicted_cells=entry['c'], export=entry[kind], behaviour=beh))


def replay(path):
    """./check C15 --replay replays/C15/<file>.json: re-run one recorded behaviour of the model against the code"""
    from nutils import matrix
    from ..report import Report
    rec = json.load(open(path))
    data = rec.get('data') or {}
    rep = Report('C15', 'replay', 0)
    table = {}
    with matrix.backend(data['backend']):
        Replayer(rep, data['backend'], matrix, table).replay(data['behaviour'])
    check_exports(rep, table)     # the exports of the re-created objects go through MatrixExport again
    for v in rep.violations:
        print('REPRODUCED key={} what={}'.format(v['key'], v['what']))
    hit = any(v['key'] == rec.get('key') for v in rep.violations)
    print('replay of {}: {}'.format(rec.get('key'), 'reproduced' if hit else 'NOT reproduced'))
    return 1 if hit else 0


def run(rep):
    from nutils import matrix
    import glob
    import time
    os.makedirs(WORKROOT, exist_ok=True)
    for old in glob.glob(os.path.join(tlc.VERIF, 'replays', 'C15', '{}-{}-*.json'.format(rep.tier, rep.seed))):
        os.unlink(old)    # replay files of an earlier run of this tier/seed
    t0 = time.time()
    behaviours = run_design(rep)
    t1 = time.time()
    backends = available_backends(rep)
    if 'numpy' not in backends:
        raise RuntimeError('numpy backend not available')
    table = {}
    replayers = []
    for bname in backends:
        with matrix.backend(bname):
            r = Replayer(rep, bname, matrix, table)
            for beh in behaviours:
                r.replay(beh)
            replayers.append(r)
    for beh in behaviours:
        sig, nontrivial = signature(beh)
        rep.case(sig, nontrivial=nontrivial)
    for beh in behaviours:
        if beh['verdict'] == 'accepted' and len(beh['steps']) > 2 and beh['steps'][0]['pred']['m'] > 1:
            rep.sample(dict(form=beh['form'], dt=beh['dt'], input=beh.get('csr') or beh.get('coo') or beh.get('blk'),
                            ops=[(s['op'], s['a'], s['b'], s['s'], s['rows'], s['cols']) for s in beh['steps'][1:]],
                            predicted_final=beh['steps'][-1]['pred']), limit=3)
        elif beh['verdict'] != 'accepted' and beh['reasons'] == ['col-repeated']:
            rep.sample(dict(form=beh['form'], input=beh.get('csr') or beh.get('coo'), verdict='rejected at ' + beh['verdict'], reasons=beh['reasons']), limit=5)
    t2 = time.time()
    check_exports(rep, table)
    rep.extra['wall_s'] = dict(tlc_design=round(t1 - t0, 1), replay=round(t2 - t1, 1), tlc_exports=round(time.time() - t2, 1))
    rep.extra['backends'] = backends
    rep.extra['behaviours'] = len(behaviours)
    rep.extra['behaviours_rejected_by_model'] = sum(1 for b in behaviours if b['verdict'] != 'accepted')
    rep.extra['matrix_objects_checked'] = {r.bname: r.steps for r in replayers}
    rep.constants['MatrixADT'] = dict(quick='arbitrary CSR: m,n<=2, nnz<=2, rowptr entries 0..2, col in -1..2; arbitrary COO: row in -1..2, col in -1..1; '
                                            'well-formed CSR/COO/empty/diag/eye: shapes 0..2 x 0..2 (nnz<=4, float and complex, explicit zeros); '
                                            'every single operation on every well-formed matrix with nnz<=3; all pairs of submatrix selections on full 2x2; '
                                            'all block layouts <=2x2 blocks of <=1x1; simulation: 4 operations on shapes up to 3x3/4x2, blocks up to 2x2',
                                      thorough='arbitrary CSR nnz<=3; well-formed shapes 0..3 x 0..3; all sequences of 2 operations on 2x2 (nnz=3); '
                                               'submatrix pairs on 2x2 with nnz 2..4; simulation with 4 and 6 operations',
                                      exhaustive_configs=[t for t, kw, exh in plan(rep.tier, rep.seed) if exh],
                                      simulation_configs=[t for t, kw, exh in plan(rep.tier, rep.seed) if not exh])
    rep.rule = ('case = one complete behaviour of MatrixADT (input form, dtype, input data, model verdict and reasons, operation sequence); '
                'non-trivial = the input has at least one stored entry; each is replayed on every backend and every created matrix is '
                'compared with the predicted denotation and observations')
    rep.assumptions += ['values are small Gaussian integers scaled by 2^-e (e<=3): all float arithmetic involved is exact, rounding behaviour is not covered',
                        'scaling is by the scalars {2,-1,0,3,i,1-i} and division by 2 only',
                        'COO input with non-monotone row indices is modelled as rejected (documented contract of numeric.compress_indices)',
                        'the MKL backend is only covered when libmkl is importable; cross-backend addition is not covered',
                        'any exception counts as rejection of ill-formed input; solve/preconditioners are outside this property']
