\* inputs chosen by the harness (JSON, VF_TABLE): invariants checked and the exact answers emitted for the S->C replay
SPECIFICATION Spec
CONSTANTS
  N = 3
  Ent = {0}
  RhsVals = {0}
  DropTols = {0}
  Kinds = {"solve", "droptol", "project"}
  CertifyDirect = TRUE
  Given = TRUE
  Emitting = TRUE
INVARIANT ConsExact
INVARIANT FreeResidual
INVARIANT IndepOfGuess
INVARIANT SingularRaises
INVARIANT NaNExact
INVARIANT Certified
INVARIANT NoSpuriousFailure
INVARIANT NoSilent
INVARIANT DenNonZero
INVARIANT EmitTerminal
CHECK_DEADLOCK FALSE
