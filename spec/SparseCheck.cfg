SPECIFICATION Spec
CONSTRAINT Work
CHECK_DEADLOCK FALSE
