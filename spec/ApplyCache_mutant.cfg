\* spec mutants: one design toggle switched off (the harness substitutes the line); Transparent must be violated
SPECIFICATION Spec
CONSTANTS
  MaxBufs = 2
  Addrs = {1}
  Items = {1}
  MaxViews = 3
  MaxOps = 6
  MaxVer = 1
  UseKinds = {"even", "head", "headT", "odd", "mid", "rev"}
  FirstFit = TRUE
  KeyStrides = TRUE
  Finalizer = TRUE
  CheckBases = TRUE
VIEW StateView
INVARIANT Transparent
CHECK_DEADLOCK FALSE
