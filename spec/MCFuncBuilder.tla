---- MODULE MCFuncBuilder ----
(* Vocabularies and bounds for FuncBuilder (property C07).  The harness generates a module that EXTENDS this one
   and defines VFFamilies; the static configurations MCFuncBuilder*.cfg use DefaultFamilies. *)
EXTENDS FuncBuilder
AllSamples == 1..Len(Samples)
MkFam(ops, leaves, samples, maxops, maxleaves, maxunused, wide) ==
    [ops |-> ops, leaves |-> leaves, samples |-> samples, maxops |-> maxops, maxleaves |-> maxleaves, maxunused |-> maxunused, wide |-> wide]
\* family 1 of every run: no programs, only the leaf/sample tables of all samples
TableFam == MkFam({}, {}, AllSamples, 0, 0, 0, 0)
ElemOps == ArithOps \cup FloatBinOps \cup {"divmod"}
CompareOps == CmpOps \cup LogicOps \cup BitOps \cup {"logical_not", "invert"}
UnOps == UnaryOps \ TransOps
TrOps == TransOps
RedOps == ReduceOps
IndexOps == {"getitem", "getitem_node"}
ShapeOps == {"reshape", "ravel", "transpose", "swapaxes", "moveaxis", "expand_dims", "broadcast_to", "repeat"}
JoinOps == {"stack", "concatenate"}
PickOps == {"take", "choose", "compress"}
ProdOps == {"dot", "matmul", "vdot", "cross", "einsum"}
LinOps == {"trace", "diagonal", "det", "inv", "norm"}
LookupOps == {"searchsorted", "interp"}
AllOps == ElemOps \cup CompareOps \cup UnOps \cup TrOps \cup RedOps \cup IndexOps \cup ShapeOps \cup JoinOps \cup PickOps \cup ProdOps \cup LinOps \cup LookupOps
AllLeaves == {GlobalLeaves[i].name : i \in 1..Len(GlobalLeaves)} \cup {"X", "EX", "BX", "Y", "EY"}
\* small default: promotion/broadcasting of every binary ufunc over one leaf of each kind, on a line sample and the product sample
DefaultFamilies == << TableFam,
    MkFam(ElemOps \cup CmpOps, {"X", "EX", "ab2", "ai2", "af23", "ac2", "ri", "cf3"}, {2, 5}, 1, 2, 1, 1),
    MkFam(IndexOps \cup RedOps, {"af23", "BX", "ai2"}, {2, 5}, 2, 2, 1, 0) >>
====
