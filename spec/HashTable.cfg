\* evaluate the table of real digests (run with -continue)
SPECIFICATION Spec
CONSTANTS
  TagMode = "name"
  ExtraClasses <- TableClasses
INVARIANT Judge
CHECK_DEADLOCK FALSE
