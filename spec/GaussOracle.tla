---------------------------- MODULE GaussOracle ----------------------------
(***************************************************************************)
(* C09, Gauss clause: the reference elements on which getpoints is called, *)
(* the region of space each of them denotes, and the exact integrals of    *)
(* all monomials over that region (the oracle for "Gauss samples of degree *)
(* p integrate every polynomial of degree at most p exactly, all points    *)
(* inside the element, weights summing to its volume").                    *)
(*                                                                         *)
(* References are the flat sequences of simplex dimensions of              *)
(* TransformChain (<<1>> line, <<2>> triangle, <<1,1>> square, <<1,2>>     *)
(* prism, <<3>> tetrahedron ...).  A configuration [d, op, a] names the    *)
(* real reference the way the code builds it (element.py):                 *)
(*   "ref"       the simplex / tensor reference d itself                   *)
(*   "children"  d.with_children(...) keeping the children a (178-184,     *)
(*               WithChildrenReference.getpoints 861-872: concatenation of *)
(*               the children's points transformed by the child maps)      *)
(*   "trim"      d.trim(levels of a half space, maxrefine, ndivisions)     *)
(*               (195-271; MosaicReference.getpoints 1074-1085: the        *)
(*               simplices of the mosaic; with maxrefine > 0 a             *)
(*               WithChildrenReference of trimmed children)                *)
(*               a = <<kind, c, keep, o, L, maxrefine>>: the half space    *)
(*               g(x) >= o/2^L (keep = 0) or g(x) <= o/2^L (keep = 1) with *)
(*               g = coordinate c (kind 0), the sum of the coordinates of  *)
(*               the simplex factor that contains coordinate c (kind 1),   *)
(*               or x + y on the square (kind 2)                           *)
(* The region of a configuration is a signed list of pieces; a piece is    *)
(* the image of a reference (product of simplices) under an exact dyadic   *)
(* affine map [m, n, e, A, b] (x = (A xi + b) / 2^e).  The integral of a   *)
(* monomial over a piece is obtained by expanding the pulled back monomial *)
(* into a polynomial in xi with integer coefficients and integrating term  *)
(* by term with the closed formula for monomials on simplices,             *)
(*    int_simplex xi^e = prod e_i! / (m + sum e)!                          *)
(* Numbers beyond 32 bits are avoided by emitting the integral as the list *)
(* of its terms <<exponents, coefficient, num, den>> plus the common       *)
(* factor |det A| / 2^(e (n + deg)); the harness sums them in exact        *)
(* rational arithmetic.  For low degrees TLC sums them itself and checks   *)
(*   ChildrenTile    the children of a reference tile it                   *)
(*   TrimSplits      a half space and its complement split the reference   *)
(*   RegionInside    region moments are bounded by the reference's         *)
(*   VolumePositive  every region has positive volume                      *)
(* GaussTable.tla binds the pieces to the code: the decomposition of the   *)
(* live reference (child transforms, mosaic simplices) is exported and TLC *)
(* decides that it tiles exactly the region of the configuration.          *)
(***************************************************************************)
EXTENDS TransformChain, Json

CONSTANTS RefTypes,     \* the references
          TrimRefs,     \* the references that are trimmed
          DegRef,       \* moments up to this degree are emitted for plain references (capped by GoMaxDeg)
          DegRegion,    \* ... for children / trimmed configurations of dimension <= 2
          DegRegion3,   \* ... of dimension 3
          InvDeg,       \* TLC itself sums and compares moments up to this degree (32 bit arithmetic)
          TrimLevels,   \* set of L: thresholds o / 2^L with 0 < o < 2^L (and up to 2 * 2^L on the square diagonal)
          MaxRefine,    \* set of maxrefine values of trim
          GoMutant      \* "none" or the name of a deliberately wrong definition (spec mutants)

\* ------------------------------------------------------------------ exact rationals <<num, den>>, den > 0
GoAbs(x) == IF x < 0 THEN 0 - x ELSE x
RECURSIVE GoGcd(_, _)
GoGcd(a, b) == IF b = 0 THEN a ELSE GoGcd(b, a % b)
GoNorm(q) == IF q[1] = 0 THEN <<0, 1>> ELSE LET g == GoGcd(GoAbs(q[1]), q[2]) IN <<q[1] \div g, q[2] \div g>>
GoMulQ(p, q) == IF p[1] = 0 \/ q[1] = 0 THEN <<0, 1>>
                ELSE LET g1 == GoGcd(GoAbs(p[1]), q[2])
                         g2 == GoGcd(GoAbs(q[1]), p[2])
                     IN <<(p[1] \div g1) * (q[1] \div g2), (p[2] \div g2) * (q[2] \div g1)>>
GoAddQ(p, q) == LET g == GoGcd(p[2], q[2])
                IN GoNorm(<<p[1] * (q[2] \div g) + q[1] * (p[2] \div g), (p[2] \div g) * q[2]>>)
RECURSIVE GoFact(_)
GoFact(n) == IF n <= 1 THEN 1 ELSE n * GoFact(n - 1)
RECURSIVE GoProdFact(_)
GoProdFact(es) == IF Len(es) = 0 THEN 1 ELSE GoFact(es[1]) * GoProdFact(Tail(es))
RECURSIVE GoBinom(_, _)
GoBinom(n, k) == IF k = 0 THEN 1 ELSE (GoBinom(n, k - 1) * (n - k + 1)) \div k
RECURSIVE GoMultinom(_)
\* (sum es)! / prod es[i]!
GoMultinom(es) == IF Len(es) <= 1 THEN 1 ELSE GoBinom(TcSum(es), es[1]) * GoMultinom(Tail(es))
RECURSIVE GoRising(_, _)
GoRising(a, k) == IF k = 0 THEN 1 ELSE a * GoRising(a + 1, k - 1)

\* ------------------------------------------------------------------ monomials on references
\* int over the unit simplex of dimension m = Len(es) of xi^es = prod es[i]! / (m + sum es)!
\*   = 1 / (multinomial(es) (S + 1) ... (S + m)) with S = sum es   (no large factorials)
SimplexMoment(es) == <<1, GoMultinom(es) * GoRising(TcSum(es) + 1, IF GoMutant = "simplex-moment" THEN Len(es) + 1 ELSE Len(es))>>
RECURSIVE RefMoment(_, _)
\* int over the reference d of xi^e (product over the simplex factors)
RefMoment(d, e) == IF Len(d) = 0 THEN <<1, 1>>
                   ELSE GoMulQ(SimplexMoment(TcPre(e, d[1])), RefMoment(Tail(d), TcPost(e, d[1])))
\* exponent tuples of n variables of total degree <= D (= D)
Exps(n, D) == {e \in [1..n -> 0..D] : TcSum(e) <= D}
ExpsOf(n, D) == {e \in [1..n -> 0..D] : TcSum(e) = D}

\* ------------------------------------------------------------------ polynomials with integer coefficients
PolyOne(n, D) == [e \in Exps(n, D) |-> IF \A c \in 1..n : e[c] = 0 THEN 1 ELSE 0]
RECURSIVE GoLinSum(_, _, _, _)
\* sum_{c <= k} row[c] * P[e - unit(c)]
GoLinSum(P, row, e, k) == IF k = 0 THEN 0
                          ELSE (IF e[k] > 0 /\ row[k] # 0 THEN row[k] * P[[e EXCEPT ![k] = e[k] - 1]] ELSE 0) + GoLinSum(P, row, e, k - 1)
\* P times the linear form row . xi + b0
PolyMulLin(P, row, b0, n, D) == [e \in Exps(n, D) |-> b0 * P[e] + GoLinSum(P, row, e, n)]
RECURSIVE PolyPow(_, _, _, _, _, _)
PolyPow(P, row, b0, n, D, k) == IF k = 0 THEN P ELSE PolyPow(PolyMulLin(P, row, b0, n, D), row, b0, n, D, k - 1)
RECURSIVE PullBackFrom(_, _, _, _, _)
\* prod_{r <= k} (A[r] . xi + b[r])^a[r]
PullBackFrom(F, a, D, k, P) == IF k = 0 THEN P ELSE PullBackFrom(F, a, D, k - 1, PolyPow(P, F.A[k], F.b[k], F.n, D, a[k]))
PullBack(F, a) == PullBackFrom(F, a, TcSum(a), F.m, PolyOne(F.n, TcSum(a)))

\* ------------------------------------------------------------------ determinants (n <= 3)
Det(A, n) == IF n = 0 THEN 1
             ELSE IF n = 1 THEN A[1][1]
             ELSE IF n = 2 THEN A[1][1] * A[2][2] - A[1][2] * A[2][1]
             ELSE A[1][1] * (A[2][2] * A[3][3] - A[2][3] * A[3][2])
                  - A[1][2] * (A[2][1] * A[3][3] - A[2][3] * A[3][1])
                  + A[1][3] * (A[2][1] * A[3][2] - A[2][2] * A[3][1])

\* ------------------------------------------------------------------ pieces
MkPiece(d, F, sg) == [d |-> d, F |-> F, sg |-> sg]
\* the integral of x^a over a piece: sg * det / 2^shift * sum of coef * num / den over the terms
PieceMoment(pc, a) ==
    LET D == TcSum(a)
        P == PullBack(pc.F, a)
        head == [sg |-> pc.sg, det |-> GoAbs(Det(pc.F.A, pc.F.n)), shift |-> pc.F.e * (pc.F.n + D)]
    IN IF pc.F = IdMap(pc.F.n)
       THEN [sg |-> head.sg, det |-> 1, shift |-> 0, terms |-> {<<a, 1, RefMoment(pc.d, a)[1], RefMoment(pc.d, a)[2]>>}]
       ELSE [sg |-> head.sg, det |-> head.det, shift |-> head.shift,
             terms |-> {<<e, P[e], RefMoment(pc.d, e)[1], RefMoment(pc.d, e)[2]>> : e \in {x \in Exps(pc.F.n, D) : P[x] # 0}}]
\* the same integral summed by TLC (low degrees only)
RECURSIVE GoSumQ(_)
GoSumQ(S) == IF S = {} THEN <<0, 1>> ELSE LET t == CHOOSE x \in S : TRUE IN GoAddQ(GoMulQ(<<t[2], 1>>, <<t[3], t[4]>>), GoSumQ(S \ {t}))
PieceValue(pc, a) == LET m == PieceMoment(pc, a)
                     IN GoMulQ(GoSumQ(m.terms), <<m.sg * m.det, TcPow2(m.shift)>>)
RECURSIVE RegionValue(_, _)
RegionValue(pcs, a) == IF Len(pcs) = 0 THEN <<0, 1>> ELSE GoAddQ(PieceValue(pcs[1], a), RegionValue(Tail(pcs), a))

\* ------------------------------------------------------------------ maps that act on one factor of a reference
\* scale-and-shift of coordinates: x_c = (sc[c] xi_c + of[c]) / 2^L
DiagMap(n, sc, of, L) == MapNorm([m |-> n, n |-> n, e |-> L,
                                  A |-> [r \in 1..n |-> [c \in 1..n |-> IF r = c THEN sc[r] ELSE 0]],
                                  b |-> of])
\* first coordinate (1-based) and dimension of the simplex factor that contains coordinate c
RECURSIVE FactorStart(_, _, _)
FactorStart(d, c, at) == IF c <= at + d[1] - 1 THEN at ELSE FactorStart(Tail(d), c, at + d[1])
RECURSIVE FactorDim(_, _, _)
FactorDim(d, c, at) == IF c <= at + d[1] - 1 THEN d[1] ELSE FactorDim(Tail(d), c, at + d[1])

\* ------------------------------------------------------------------ configurations and their regions
MkCfg(d, op, a) == [d |-> d, op |-> op, a |-> a]
NDims(d) == TcSum(d)
Full(d) == MkPiece(d, IdMap(NDims(d)), 1)

\* pieces of the half space region of reference d (see the header for a)
TrimPieces(d, a) ==
    LET n == NDims(d)
        kind == a[1]
        c == a[2]
        keep == a[3]
        o == a[4]
        L == a[5]
        one == TcPow2(L)
        f0 == FactorStart(d, c, 1)
        fd == FactorDim(d, c, 1)
        infactor(r) == r >= f0 /\ r < f0 + fd
    IN IF kind = 0 /\ fd = 1 THEN
           \* a line factor cut at o / 2^L: an interval
           <<MkPiece(d, DiagMap(n, [r \in 1..n |-> IF r = c THEN (IF keep = 0 THEN one - o ELSE o) ELSE one],
                                   [r \in 1..n |-> IF r = c /\ keep = 0 THEN o ELSE 0], L), 1)>>
       ELSE IF kind = 0 THEN
           \* a simplex factor cut by x_c >= o / 2^L: the corner simplex at vertex c, scaled by 1 - o / 2^L
           LET corner == MkPiece(d, DiagMap(n, [r \in 1..n |-> IF infactor(r) THEN one - o ELSE one],
                                               [r \in 1..n |-> IF r = c THEN o ELSE 0], L), 1)
           IN IF keep = 0 THEN <<corner>> ELSE <<Full(d), [corner EXCEPT !.sg = -1]>>
       ELSE IF kind = 1 THEN
           \* a simplex factor cut by sum x <= o / 2^L: the corner simplex at the origin, scaled by o / 2^L
           LET corner == MkPiece(d, DiagMap(n, [r \in 1..n |-> IF infactor(r) THEN o ELSE one], [r \in 1..n |-> 0], L), 1)
           IN IF keep = 1 THEN <<corner>> ELSE <<Full(d), [corner EXCEPT !.sg = -1]>>
       ELSE
           \* the square cut by x + y = o / 2^L: a triangle at the origin (o <= 2^L) or at (1, 1) (o >= 2^L)
           IF o <= one THEN
               LET tri == MkPiece(<<2>>, DiagMap(2, <<o, o>>, <<0, 0>>, L), 1)
               IN IF keep = 1 THEN <<tri>> ELSE <<Full(d), [tri EXCEPT !.sg = -1]>>
           ELSE
               LET tri == MkPiece(<<2>>, DiagMap(2, <<o - 2 * one, o - 2 * one>>, <<one, one>>, L), 1)
               IN IF keep = 0 THEN <<tri>> ELSE <<Full(d), [tri EXCEPT !.sg = -1]>>

ChildPiece(d, c) == MkPiece(d, IF GoMutant = "child-map" /\ c = 1 THEN ItemMap(ChildSeq(d)[1]) ELSE ItemMap(ChildSeq(d)[c + 1]), 1)
Region(cfg) == IF cfg.op = "ref" THEN <<Full(cfg.d)>>
               ELSE IF cfg.op = "children" THEN [k \in 1..Len(cfg.a) |-> ChildPiece(cfg.d, cfg.a[k])]
               ELSE TrimPieces(cfg.d, cfg.a)

\* the half spaces used for trimming reference d
TrimArgs(d) ==
    LET n == NDims(d)
        axis == {<<0, c, keep, o, L, mr>> : c \in 1..n, keep \in {0, 1}, o \in 1..3, L \in TrimLevels, mr \in MaxRefine}
        diag == {<<1, c, keep, o, L, mr>> : c \in {x \in 1..n : FactorDim(d, x, 1) >= 2 /\ FactorStart(d, x, 1) = x}, keep \in {0, 1}, o \in 1..3, L \in TrimLevels, mr \in MaxRefine}
        sq == IF d = <<1, 1>> THEN {<<2, 1, keep, o, L, mr>> : keep \in {0, 1}, o \in 1..7, L \in TrimLevels, mr \in MaxRefine} ELSE {}
    IN {a \in axis \cup diag \cup sq : a[4] < (IF a[1] = 2 THEN 2 ELSE 1) * TcPow2(a[5]) /\ (a[4] % 2 = 1 \/ a[5] = 1)}
RECURSIVE GoSortedSeq(_)
GoSortedSeq(S) == IF S = {} THEN <<>> ELSE LET m == CHOOSE x \in S : \A y \in S : x <= y IN <<m>> \o GoSortedSeq(S \ {m})
\* proper nonempty subsets of the children (all of them for at most 4 children, else a few)
ChildSets(d) == LET nc == NChildren(d)
                IN IF nc <= 4 THEN {S \in SUBSET (0..(nc - 1)) : S # {} /\ S # 0..(nc - 1)}
                   ELSE {{0}, {nc - 1}, 0..(nc - 2), {k \in 0..(nc - 1) : k % 2 = 0}, {k \in 0..(nc - 1) : k >= nc \div 2}, {1, nc - 2}}

\* ------------------------------------------------------------------ the machine: one configuration per state
VARIABLE cfg
Init == \E d \in RefTypes : cfg = MkCfg(d, "ref", <<>>)
WithChildren == /\ cfg.op = "ref"
                /\ \E S \in ChildSets(cfg.d) : cfg' = MkCfg(cfg.d, "children", GoSortedSeq(S))
Trim == /\ cfg.op = "ref" /\ cfg.d \in TrimRefs
        /\ \E a \in TrimArgs(cfg.d) : cfg' = MkCfg(cfg.d, "trim", a)
Next == WithChildren \/ Trim
Spec == Init /\ [][Next]_cfg

\* ------------------------------------------------------------------ model-level sanity of the oracle (TLC sums, low degree)
LowExps(d) == UNION {ExpsOf(NDims(d), D) : D \in 0..InvDeg}
Compl(a) == [a EXCEPT ![3] = 1 - a[3]]
\* all children together are the reference
ChildrenTile == cfg.op = "ref" =>
                  \A e \in LowExps(cfg.d) :
                     RegionValue([k \in 1..NChildren(cfg.d) |-> ChildPiece(cfg.d, k - 1)], e) = RefMoment(cfg.d, e)
\* a half space and its complement are the reference
TrimSplits == cfg.op = "trim" =>
                  \A e \in LowExps(cfg.d) :
                     GoAddQ(RegionValue(Region(cfg), e), RegionValue(TrimPieces(cfg.d, Compl(cfg.a)), e)) = RefMoment(cfg.d, e)
\* moments of a region are positive and at most those of the reference (coordinates are in [0, 1])
GoLeq(p, q) == p[1] * q[2] <= q[1] * p[2]
RegionInside == \A e \in LowExps(cfg.d) :
                   LET v == RegionValue(Region(cfg), e) IN v[1] > 0 /\ GoLeq(v, RefMoment(cfg.d, e))
\* the full reference has the textbook volume
RefVolume == cfg.op = "ref" => RegionValue(Region(cfg), [c \in 1..NDims(cfg.d) |-> 0]) = <<1, GoProdFact(cfg.d)>>

\* ------------------------------------------------------------------ emission: the oracle table
Emit(x) == PrintT(<<"VF", ToJson(x)>>)
GoMin(a, b) == IF a < b THEN a ELSE b
\* documented maximal Gauss degrees: triangle 7, tetrahedron 8 (points.py gauss2, gauss3), line unbounded
RECURSIVE GoMaxDeg(_)
GoMaxDeg(d) == IF Len(d) = 0 THEN 99 ELSE GoMin(IF d[1] = 2 THEN 7 ELSE IF d[1] = 3 THEN 8 ELSE 99, GoMaxDeg(Tail(d)))
DegOf(c) == GoMin(GoMaxDeg(c.d), IF c.op = "ref" THEN DegRef ELSE IF NDims(c.d) <= 2 THEN DegRegion ELSE DegRegion3)
Oracle == [cfg |-> cfg, maxdeg |-> GoMaxDeg(cfg.d), deg |-> DegOf(cfg),
           pieces |-> [k \in 1..Len(Region(cfg)) |-> [d |-> Region(cfg)[k].d, F |-> Region(cfg)[k].F, sg |-> Region(cfg)[k].sg]],
           moments |-> [e \in Exps(NDims(cfg.d), DegOf(cfg)) |-> [k \in 1..Len(Region(cfg)) |-> PieceMoment(Region(cfg)[k], e)]]]
EmitAll == Emit(Oracle)
=============================================================================
