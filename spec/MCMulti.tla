------------------------------ MODULE MCMulti ------------------------------
EXTENDS BasisMulti, Json
Builds_quick == {<<1, -1, TRUE>>, <<2, -1, TRUE>>, <<2, 0, TRUE>>, <<2, -1, FALSE>>, <<3, 1, TRUE>>}
Builds_all == {<<1, -1, TRUE>>, <<2, -1, TRUE>>, <<2, 0, TRUE>>, <<2, -1, FALSE>>, <<3, -1, TRUE>>, <<3, 1, TRUE>>, <<3, 0, FALSE>>, <<1, -1, FALSE>>, <<2, -3, TRUE>>}
N_12 == {1, 2}
N_123 == {1, 2, 3}
Emit(x) == PrintT(<<"VF", ToJson(x)>>)
EmitState == st = "built" => Emit([hist |-> hist, st |-> st, b |-> b])
=============================================================================
