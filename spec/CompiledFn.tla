----------------------------- MODULE CompiledFn -----------------------------
(***************************************************************************)
(* C03: a compiled evaluation function is a pure function of its arguments *)
(* across calls.  Model of the persistent part of the generated script     *)
(* (evaluable.compile with cache_const_intermediates): the first call      *)
(* computes everything and stores the call-invariant intermediates in      *)
(* module globals (frozen with setflags(write=False)); later calls skip    *)
(* the blocks of call-invariant evaluables and read the globals.  Returned *)
(* arrays are either fresh buffers or (when the output itself is           *)
(* call-invariant) the cached global.  The user may overwrite any          *)
(* returned array that is writable, may call with new argument values,     *)
(* the same values again, or arguments of the wrong shape (which must      *)
(* raise and leave the function usable).                                   *)
(*                                                                         *)
(* Kind of program: "const" (output call-invariant), "mixed" (output       *)
(* depends on arguments and on a cached intermediate), "argdep" (nothing   *)
(* cached).  FreezeCached = FALSE is the spec mutant "cached globals stay  *)
(* writable": Pure is then violated by Call, UserWrite, Call.              *)
(***************************************************************************)
EXTENDS Naturals, Sequences, FiniteSets, TLC, Json

CONSTANTS NEnv, MaxLen, FreezeCached

VARIABLES kind, firstRun, cacheJunk, results, hist

vars == <<kind, firstRun, cacheJunk, results, hist>>

Kinds == {"const", "mixed", "argdep"}
UsesCache(k) == k \in {"const", "mixed"}

Init == /\ kind \in Kinds
        /\ firstRun = TRUE
        /\ cacheJunk = FALSE
        /\ results = <<>>      \* per successful call: [env, src, writable, junk, ok]
        /\ hist = <<>>

\* a call with the argument values of environment e
Call(e) == /\ Len(hist) < MaxLen
           /\ LET src == IF kind = "const" THEN "cached" ELSE "fresh"
                  r == [env |-> e, src |-> src,
                        writable |-> (src = "fresh" \/ ~FreezeCached),
                        junk |-> FALSE,
                        ok |-> ~(UsesCache(kind) /\ cacheJunk)]
              IN /\ results' = Append(results, r)
                 /\ hist' = Append(hist, [op |-> "call", arg |-> e])
           /\ firstRun' = FALSE
           /\ UNCHANGED <<kind, cacheJunk>>

\* a call with an argument of the wrong shape: raises, nothing changes (in particular firstRun)
CallWrongShape == /\ Len(hist) < MaxLen /\ kind # "const"
                  /\ hist' = Append(hist, [op |-> "wrongshape", arg |-> 0])
                  /\ UNCHANGED <<kind, firstRun, cacheJunk, results>>

\* the user overwrites a previously returned array (only possible when writable)
UserWrite(k) == /\ Len(hist) < MaxLen /\ k \in 1..Len(results) /\ results[k].writable /\ ~results[k].junk
                /\ results' = [results EXCEPT ![k].junk = TRUE]
                /\ cacheJunk' = (cacheJunk \/ results[k].src = "cached")
                /\ hist' = Append(hist, [op |-> "write", arg |-> k])
                /\ UNCHANGED <<kind, firstRun>>

\* the user tries to overwrite a read-only result: ValueError, nothing changes
UserWriteRefused(k) == /\ Len(hist) < MaxLen /\ k \in 1..Len(results) /\ ~results[k].writable
                       /\ hist' = Append(hist, [op |-> "write", arg |-> k])
                       /\ UNCHANGED <<kind, firstRun, cacheJunk, results>>

Next == \/ \E e \in 1..NEnv : Call(e)
        \/ CallWrongShape
        \/ \E k \in 1..MaxLen : UserWrite(k) \/ UserWriteRefused(k)

Spec == Init /\ [][Next]_vars

\* every call returned what a freshly generated function returns for its arguments
Pure == \A k \in 1..Len(results) : results[k].ok
\* whatever the user can reach that aliases a cached global is read-only
CachedFrozen == \A k \in 1..Len(results) : results[k].src = "cached" => ~results[k].writable
\* cached values are never corrupted
CacheIntact == ~cacheJunk

Emit(x) == PrintT(<<"VF", ToJson(x)>>)
\* emit every maximal history once (kind "argdep" suffices for replay: the harness replays each history on every program)
EmitHist == (Len(hist) = MaxLen /\ kind = "mixed") => Emit(hist)
=============================================================================
