------------------------------ MODULE DimTable ------------------------------
(***************************************************************************)
(* C20 (T): the LIVE Quantity.__DISPATCH_TABLE, exported by the harness    *)
(* as JSON, checked against the model.  For every key of the live table a  *)
(* row {f, disp, probes}: the name of the registered dispatcher and, per   *)
(* calling convention, the class the live dispatcher produces for probe    *)
(* operands of a few classes (the operation itself is stubbed).  The model *)
(* selects the convention that belongs to ITS dispatcher of f and compares *)
(* the outcome with Dispatch(...); it also demands that the live table and *)
(* the model table have the same keys, and that level I (ImplFuncs, the    *)
(* transcription of the decorators) agrees with level A (RuleFuncs).       *)
(***************************************************************************)
EXTENDS Dimension, Json, IOUtils

VARIABLE bad
TblBaseOrd == <<"I", "J", "L", "M", "N", "T", "Q">>
T == JsonDeserialize(IOEnv.VF_TABLE)

\* both __evaluate functions of SI.py carry the same __name__
CodeName(d) == IF d = "__curvature" THEN "__evaluate" ELSE d
Conv(d) == CASE d \in {"__unary", "__sqrt", "__unary_op", "__curvature", "__attribute"} -> "one"
             [] d = "__pow_like" -> "pow"
             [] d \in {"__add_like", "__mul_like", "__div_like", "__laplace", "__binary_op"} -> "two"
             [] d = "__setitem" -> "setitem"
             [] d = "__stack_like" -> "stack"
             [] d = "__interp" -> "interp"
             [] d = "__locate" -> "locate"
             [] d = "__sample" -> "sample"
             [] d = "__field" -> "field"
             [] d = "__evaluate" -> "evaluate"

\* C0: the classes of the probe operands, name -> powers
Expected(C0, f, p) ==
  LET disp == DispOf(f)
      \* `tol is None` never holds (the default is the number 0)
      d == Dispatch(C0, disp, p.ds, IF disp = "__locate" THEN <<0, p.k[2]>> ELSE <<p.k[1], p.k[2]>>)
      wraps(n, c) == DOMAIN c[n] # {}
  IN IF disp = "__evaluate"
     THEN [res |-> "each", name |-> IF wraps(p.ds[1], C0) THEN p.ds[1] ELSE <<>>, name2 |-> IF wraps(p.ds[2], C0) THEN p.ds[2] ELSE <<>>]
     ELSE CASE d.res = "rej" -> [res |-> "rej", name |-> <<>>, name2 |-> <<>>]
            [] d.res = "raw" -> [res |-> "plain", name |-> <<>>, name2 |-> <<>>]
            [] d.res = "wrap" -> IF wraps(d.name, d.cache) THEN [res |-> "wrap", name |-> d.name, name2 |-> <<>>]
                                 ELSE [res |-> "plain", name |-> <<>>, name2 |-> <<>>]
ProbeOK(C0, f, p) == LET e == Expected(C0, f, p) IN p.res = e.res /\ p.name = e.name /\ p.name2 = e.name2
Relevant(f, r) == {j \in 1..Len(r.probes) : r.probes[j].conv = Conv(DispOf(f))}

Why(C0, r) == IF r.f \notin AllFuncs THEN "not-in-model"
              ELSE IF r.disp # CodeName(DispOf(r.f)) THEN "wrong-dispatcher"
              ELSE IF Relevant(r.f, r) = {} THEN "no-probe"
              ELSE IF \E j \in Relevant(r.f, r) : ~ProbeOK(C0, r.f, r.probes[j]) THEN "wrong-rule"
              ELSE "ok"

\* level I (how the code registers) against level A (what physics dictates): same functions, compatible classes
RuleOfDisp(d) == CASE d = "__unary" -> "unary" [] d = "__add_like" -> "add_like" [] d = "__mul_like" -> "mul_like"
                   [] d = "__div_like" -> "div_like" [] d = "__laplace" -> "laplace" [] d = "__sqrt" -> "sqrt"
                   [] d = "__setitem" -> "setitem" [] d = "__pow_like" -> "pow_like" [] d = "__unary_op" -> "strip"
                   [] d = "__binary_op" -> "compare" [] d = "__stack_like" -> "stack_like" [] d = "__curvature" -> "inverse"
                   [] d = "__evaluate" -> "each" [] d = "__field" -> "product" [] d = "__attribute" -> "strip"
                   [] d = "__interp" -> "interp" [] d = "__locate" -> "locate" [] d = "__sample" -> "unary"
LevelsAgree == /\ RulesDisjoint
               /\ DOMAIN ImplTable = AllFuncs
               /\ \A f \in AllFuncs : RuleOfDisp(DispOf(f)) = RuleOfF(f)

Check(R) ==
  LET Rows == R.rows
      Classes == R.classes
      ClassIdx(n) == CHOOSE j \in 1..Len(Classes) : Classes[j].name = n
      C0 == TLCEval([n \in {Classes[j].name : j \in 1..Len(Classes)} |-> IF n = <<>> THEN NoPowers ELSE Classes[ClassIdx(n)].pw])
      why == [i \in 1..Len(Rows) |-> Why(C0, Rows[i])]
  IN [rows |-> {[f |-> Rows[i].f, why |-> why[i]] : i \in {j \in 1..Len(Rows) : why[j] # "ok"}},
      missing |-> AllFuncs \ {Rows[i].f : i \in 1..Len(Rows)},
      extra |-> R.extra,
      nprobes |-> [i \in 1..Len(Rows) |-> IF Rows[i].f \in AllFuncs THEN Cardinality(Relevant(Rows[i].f, Rows[i])) ELSE 0]]
Init == bad = Check(TLCEval(T))
Next == UNCHANGED bad
Spec == Init /\ [][Next]_bad
Emit == PrintT(<<"VF", ToJson(bad)>>)
TableOK == bad.rows = {} /\ bad.missing = {} /\ bad.extra = <<>>
ModelOK == LevelsAgree
=============================================================================
