----------------------------- MODULE IntBounds -----------------------------
(***************************************************************************)
(* C06, integer ranges.  Design-level statement of what the library's      *)
(* range inference (Array._intbounds) must guarantee: for every            *)
(* constructor, whatever concrete integer values the operands take inside  *)
(* their inferred intervals, the concrete result lies inside the interval  *)
(* produced by the constructor's transfer function.  The transfer          *)
(* functions below transcribe src/nutils/evaluable.py (_intbounds_impl of  *)
(* Multiply, Add, Sum, Negative, FloorDivide, Absolute, Mod, Sign,         *)
(* Minimum, Maximum, Inflate, RavelIndex, BoolToInt); intervals have       *)
(* endpoints in {-Inf} + -B..B + {+Inf}.  TLC enumerates every operand     *)
(* interval pair, every concrete operand tuple inside them (within the     *)
(* box -B..B) and every axis length 0..MaxLen, and checks Sound.           *)
(*                                                                         *)
(* Inflate is the instructive case: with a dofmap that repeats an entry    *)
(* the scatter-ADD accumulates, so [min(lo,0), max(hi,0)] is NOT sound     *)
(* (two contributions of 1 give 2); the sound transfer multiplies by the   *)
(* number of contributions unless the dofmap is known to be injective.     *)
(***************************************************************************)
EXTENDS Integers, Sequences, FiniteSets, TLC

CONSTANTS B, MaxLen, InflateNaive   \* InflateNaive = TRUE transcribes the pre-fix rule (spec mutant)
Inf == 1000
NInf == -1000
Box == (-B)..B
Ends == {NInf} \cup Box \cup {Inf}
Intervals == {<<lo, hi>> \in Ends \X Ends : lo <= hi /\ lo # Inf /\ hi # NInf}
In(x, I) == I[1] <= x /\ x <= I[2]

Min2(a, b) == IF a < b THEN a ELSE b
Max2(a, b) == IF a < b THEN b ELSE a
MinS(S) == CHOOSE x \in S : \A y \in S : x <= y
MaxS(S) == CHOOSE x \in S : \A y \in S : y <= x
IsInf(a) == a = Inf \/ a = NInf
Sat(a) == IF a >= Inf THEN Inf ELSE IF a <= NInf THEN NInf ELSE a
EAdd(a, b) == IF IsInf(a) THEN a ELSE IF IsInf(b) THEN b ELSE a + b
\* nutils convention: b1 and b2 and b1*b2, i.e. 0 * inf = 0
EMul(a, b) == IF a = 0 \/ b = 0 THEN 0
              ELSE IF IsInf(a) \/ IsInf(b) THEN (IF (a > 0) = (b > 0) THEN Inf ELSE NInf)
              ELSE a * b
ENeg(a) == IF a = Inf THEN NInf ELSE IF a = NInf THEN Inf ELSE -a
EAbs(a) == IF IsInf(a) THEN Inf ELSE IF a < 0 THEN -a ELSE a
Sgn(a) == IF a > 0 THEN 1 ELSE IF a < 0 THEN -1 ELSE 0

\* ---- transfer functions
TNeg(I) == <<ENeg(I[2]), ENeg(I[1])>>
TAdd(I, J) == <<EAdd(I[1], J[1]), EAdd(I[2], J[2])>>
TMul(I, J) == LET ex == {EMul(a, b) : a \in {I[1], I[2]}, b \in {J[1], J[2]}} IN <<MinS(ex), MaxS(ex)>>
TAbs(I) == IF I[1] <= 0 /\ I[2] >= 0 THEN <<0, Max2(EAbs(I[1]), EAbs(I[2]))>>
           ELSE <<Min2(EAbs(I[1]), EAbs(I[2])), Max2(EAbs(I[1]), EAbs(I[2]))>>
TSign(I) == <<Sgn(I[1]), Sgn(I[2])>>
TMin(I, J) == <<Min2(I[1], J[1]), Min2(I[2], J[2])>>
TMax(I, J) == <<Max2(I[1], J[1]), Max2(I[2], J[2])>>
TBoolToInt == <<0, 1>>
\* Sum over an axis whose length lies in <<nlo, nhi>>
TSum(I, n) == IF n[2] = 0 THEN <<0, 0>>
              ELSE IF n[1] = 0 THEN <<Min2(0, EMul(I[1], n[2])), Max2(0, EMul(I[2], n[2]))>>
              ELSE <<Min2(EMul(I[1], n[1]), EMul(I[1], n[2])), Max2(EMul(I[2], n[1]), EMul(I[2], n[2]))>>
\* Mod with positive divisor
TMod(I, J) == IF J[1] > 0
              THEN (IF 0 <= I[1] /\ I[2] < J[1] THEN I ELSE <<0, EAdd(J[2], -1)>>)
              ELSE <<NInf, Inf>>
\* Inflate of values in I through a dofmap with m entries (m contributions may hit the same slot)
TInflate(I, m) == IF InflateNaive THEN <<Min2(I[1], 0), Max2(I[2], 0)>>
                  ELSE <<Min2(EMul(I[1], m), 0), Max2(EMul(I[2], m), 0)>>
TRavelIndex(IA, IB, NB) == <<EAdd(EMul(IA[1], NB[1]), IB[1]), EAdd(EMul(IA[2], NB[2]), IB[2])>>

\* ---- concrete semantics on the box
PyMod(x, y) == x - y * (x \div y)     \* y > 0: TLA+ \div floors
RECURSIVE SeqSum(_)
SeqSum(s) == IF Len(s) = 0 THEN 0 ELSE s[1] + SeqSum(Tail(s))
Tuples(S, n) == [1..n -> S]

VARIABLES op, i1, i2, x1, x2, n, xs
vars == <<op, i1, i2, x1, x2, n, xs>>

Unary == {"Negative", "Absolute", "Sign"}
Binary == {"Add", "Multiply", "Minimum", "Maximum", "Mod", "RavelIndex"}
Reduce == {"Sum", "Inflate"}

Init == /\ op \in Unary \cup Binary \cup Reduce
        /\ i1 \in Intervals /\ i2 \in Intervals
        /\ x1 \in {x \in Box : In(x, i1)} /\ x2 \in {x \in Box : In(x, i2)}
        /\ n \in 0..MaxLen
        /\ xs \in (IF op \in Reduce THEN {s \in Tuples(Box, n) : \A k \in 1..n : In(s[k], i1)} ELSE {<<>>})
        /\ (op \in Unary => i2 = <<0, 0>> /\ n = 0)
        /\ (op \in Binary => n = 0)
        /\ (op \in Reduce => i2 = <<0, 0>> /\ x1 = MinS({x \in Box : In(x, i1)}))
        /\ (op = "Mod" => x2 > 0)
        /\ (op = "RavelIndex" => i1[1] >= 0 /\ i2[1] >= 0)
Next == UNCHANGED vars
Spec == Init /\ [][Next]_vars

Concrete == CASE op = "Negative" -> -x1
              [] op = "Absolute" -> IF x1 < 0 THEN -x1 ELSE x1
              [] op = "Sign" -> Sgn(x1)
              [] op = "Add" -> x1 + x2
              [] op = "Multiply" -> x1 * x2
              [] op = "Minimum" -> Min2(x1, x2)
              [] op = "Maximum" -> Max2(x1, x2)
              [] op = "Mod" -> PyMod(x1, x2)
              [] op = "RavelIndex" -> x1 * 3 + x2           \* nb = 3 exactly
              [] op = "Sum" -> SeqSum(xs)
              [] op = "Inflate" -> SeqSum(xs)                 \* worst case: all n contributions hit one slot
Transfer == CASE op = "Negative" -> TNeg(i1)
              [] op = "Absolute" -> TAbs(i1)
              [] op = "Sign" -> TSign(i1)
              [] op = "Add" -> TAdd(i1, i2)
              [] op = "Multiply" -> TMul(i1, i2)
              [] op = "Minimum" -> TMin(i1, i2)
              [] op = "Maximum" -> TMax(i1, i2)
              [] op = "Mod" -> TMod(i1, i2)
              [] op = "RavelIndex" -> TRavelIndex(i1, i2, <<3, 3>>)
              [] op = "Sum" -> TSum(i1, <<n, n>>)
              [] op = "Inflate" -> TInflate(i1, n)
Sound == In(Concrete, Transfer)
WellFormed == Transfer[1] <= Transfer[2]
=============================================================================
