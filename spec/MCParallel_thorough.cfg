\* exhaustive design check, thorough tier
SPECIFICATION SpecT
CONSTANTS
  MaxProcs = 4
  Configs <- ConfigsThorough
  MaxFaults = 2
  LockedClaim = TRUE
  CheckExit = TRUE
  KillChildren = TRUE
  KillInCS = FALSE
  Record = FALSE
  FaultPlans <- PlansAny
INVARIANT TypeOK
INVARIANT AtMostOnce
INVARIANT ExactlyOnce
INVARIANT MutexRange
INVARIANT MutexArrays
INVARIANT NoLostUpdate
INVARIANT NoPartialResult
INVARIANT RaiseOnlyOnFault
INVARIANT NoOrphans
CHECK_DEADLOCK TRUE
