----------------------------- MODULE GaussTable -----------------------------
(***************************************************************************)
(* C09, T binding of GaussOracle to src/nutils/element.py.  For every      *)
(* configuration of GaussOracle the harness builds the real reference      *)
(* (with_children / trim on the simplex and tensor references) and exports *)
(* (env VF_TABLE, JSON) its own decomposition, the way getpoints walks it: *)
(* WithChildrenReference -> its non-empty children under their child       *)
(* transforms, MosaicReference -> its simplices under simplex_transforms,  *)
(* simplex / tensor references -> themselves; every leaf with its exact    *)
(* dyadic affine map to the coordinates of the outermost reference.        *)
(* TLC decides, one state per configuration, that the exported pieces tile *)
(* exactly the region the model assigns to the configuration (equality of  *)
(* all monomial integrals up to degree InvDeg, exact rational arithmetic), *)
(* that every piece has positive volume and that the volumes add up.       *)
(***************************************************************************)
EXTENDS MCGaussOracle, IOUtils

Table == JsonDeserialize(IOEnv.VF_TABLE)
VARIABLE i
TInit == i = 1 /\ cfg = Table[1].cfg
TNext == i < Len(Table) /\ i' = i + 1 /\ cfg' = Table[i + 1].cfg
TSpec == TInit /\ [][TNext]_<<i, cfg>>

Exported == [k \in 1..Len(Table[i].pieces) |-> MkPiece(Table[i].pieces[k].d, Table[i].pieces[k].F, 1)]
Zero(n) == [c \in 1..n |-> 0]
Verdict ==
    IF cfg # Table[i].cfg THEN "harness"
    ELSE IF \E k \in 1..Len(Exported) : Det(Exported[k].F.A, Exported[k].F.n) = 0 THEN "degenerate-piece"
    ELSE IF RegionValue(Exported, Zero(NDims(cfg.d))) # RegionValue(Region(cfg), Zero(NDims(cfg.d))) THEN "volume-differs"
    ELSE IF \E e \in LowExps(cfg.d) : RegionValue(Exported, e) # RegionValue(Region(cfg), e) THEN "moments-differ"
    ELSE "ok"
\* always TRUE; prints the verdict of every configuration
CheckEntry == Emit([i |-> i, v |-> Verdict])
=============================================================================
