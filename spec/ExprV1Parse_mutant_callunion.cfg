\* spec mutant of the version 1 bookkeeping model (C19): the groups of linked lengths of the arguments of a call are united as they are, not joined: mul(?u_i r_i, ?u_j)
\* expected: TLC reports an invariant (VerdictAgree / FreeAgree / GroupsAgree) as violated.  Stand-alone:
\*   java -cp tla2tools.jar:CommunityModules-deps.jar tlc2.TLC -deadlock -config ExprV1Parse_mutant_callunion.cfg MCExprV1Parse.tla
SPECIFICATION Spec
CONSTANTS
  Fams <- OnlyT2
  EmitMin = 0
  Bug = "call-raw-union"
  Lazy = FALSE
INVARIANT VerdictAgree
INVARIANT FreeAgree
INVARIANT GroupsAgree
INVARIANT InferenceSound
CHECK_DEADLOCK FALSE
